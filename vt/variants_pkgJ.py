"""C17 variants: refactorings the rules were taught to follow (T) and breaking changes in the same shapes (B)."""
from .variants import B, T, S, C, R, A, E, ST, CK, STATS, GZ, CC, PF, RS, FL, META, CE

_RR_TEXT = '''        if isinstance(context, str):  # already serialized but not encoded
            context = context.encode('utf8')
        if isinstance(context, bytes):  # already serialized and encoded
            if self._guess_json(context):
                return Response(context, mimetype="application/json")
            elif b'<html' in context[:168]:
                # based on the longest DOCTYPE I found in a brief search
                return Response(context, mimetype="text/html")
            else:
                return Response(context, mimetype="text/plain")
'''
_RR_TAIL = '''        if not isinstance(context, Sized):
            return Response(str(context), mimetype="text/plain")
        return self._serialize_to_resp(context, request, _route)
'''
_GJ = '''        if not bytestr:
            return False
        elif bytestr[:1] == b'{' and bytestr[-1:] == b'}':
            return True
        elif bytestr[:1] == b'[' and bytestr[-1:] == b']':
            return True
        else:
            return False
'''
_SR_DISPATCH = '''        if resp_mime == 'application/json':
            return self.json_render(context)
        elif resp_mime == 'text/html':
            return self.tabular_render(context, _route)
'''
_DEV_TAIL = '''        if self.dev_mode:
            return repr(obj)
        raise TypeError('cannot serialize to JSON: %r' % obj)
'''


def _payload_block(order=('json', 'html'), enc="context.encode('utf8')", needle="b'<html'", default='text/plain'):
    tests = {'json': "self._guess_json(payload)", 'html': "%s in payload[:self._html_sniff_len]" % needle}
    labels = {'json': 'application/json', 'html': 'text/html'}
    return ('''        if isinstance(context, (str, bytes)):
            if isinstance(context, str):
                payload = %s
            else:
                payload = context
            return Response(payload, mimetype=self._sniff_mimetype(payload))
''' % enc, '''    _html_sniff_len = 168

    def _sniff_mimetype(self, payload):
        if %s:
            return "%s"
        if %s:
            return "%s"
        return "%s"

    def _serialize_to_resp(self, context, request, _route):''' % (tests[order[0]], labels[order[0]], tests[order[1]], labels[order[1]], default))


_SR_HEAD = '    def _serialize_to_resp(self, context, request, _route):'

# -- the text branch: one str/bytes block, payload local, sniffing extracted into a helper, label via helper result
_blk, _helper = _payload_block()
T('j17_payload_sniff_helper', ['C17'], (RS, _RR_TEXT, _blk), (RS, _SR_HEAD, _helper))
_blk, _helper = _payload_block(order=('html', 'json'))
B('j17_payload_helper_html_first', ['C17'], 'R17.c', (RS, _RR_TEXT, _blk), (RS, _SR_HEAD, _helper))
_blk, _helper = _payload_block(enc='context')
B('j17_payload_not_encoded', ['C17'], 'R17.c', (RS, _RR_TEXT, _blk), (RS, _SR_HEAD, _helper))
_blk, _helper = _payload_block(needle="'<html'")
B('j17_payload_sniffs_text', ['C17'], 'R17.b', (RS, _RR_TEXT, _blk), (RS, _SR_HEAD, _helper))
_blk, _helper = _payload_block(default='text/html')
B('j17_payload_default_html', ['C17'], 'R17.c', (RS, _RR_TEXT, _blk), (RS, _SR_HEAD, _helper))
# named tests, evaluated up front (both are pure)
T('j17_named_sniffs', ['C17'],
  (RS, _RR_TEXT, '''        if isinstance(context, str):
            context = context.encode('utf8')
        if isinstance(context, bytes):
            is_json = self._guess_json(context)
            is_html = b'<html' in context[:168]
            if is_json:
                mimetype = "application/json"
            elif is_html:
                mimetype = "text/html"
            else:
                mimetype = "text/plain"
            return Response(context, mimetype=mimetype)
'''))
B('j17_named_sniffs_html_wins', ['C17'], 'R17.c',
  (RS, _RR_TEXT, '''        if isinstance(context, str):
            context = context.encode('utf8')
        if isinstance(context, bytes):
            is_json = self._guess_json(context)
            is_html = b'<html' in context[:168]
            mimetype = "text/plain"
            if is_json:
                mimetype = "application/json"
            if is_html:
                mimetype = "text/html"
            return Response(context, mimetype=mimetype)
'''))
T('j17_label_overwrite_chain', ['C17'],
  (RS, _RR_TEXT, '''        if isinstance(context, str):
            context = context.encode('utf8')
        if isinstance(context, bytes):
            mimetype = "text/plain"
            if b'<html' in context[:168]:
                mimetype = "text/html"
            if self._guess_json(context):
                mimetype = "application/json"
            return Response(context, mimetype=mimetype)
'''))
# Sized guard inverted / tested first (str and bytes are Sized)
T('j17_sized_inverted', ['C17'],
  (RS, _RR_TAIL, '''        if isinstance(context, Sized):
            return self._serialize_to_resp(context, request, _route)
        return Response(str(context), mimetype="text/plain")
'''))
B('j17_sized_inverted_wrong', ['C17'], 'R17.c',
  (RS, _RR_TAIL, '''        if not isinstance(context, Sized):
            return self._serialize_to_resp(context, request, _route)
        return Response(str(context), mimetype="text/plain")
'''))
T('j17_unsized_first', ['C17'],
  (RS, _RR_TEXT, '''        if not isinstance(context, Sized):
            return Response(str(context), mimetype="text/plain")
''' + _RR_TEXT))
# (variant j17_bytes_encoded_again removed: it was decided by evaluating the function on sample bodies; the checker only reads shapes,
#  so this form is an ANALYSIS-ERROR now)
B('j17_text_returns_none', ['C17'], 'R17.c',
  (RS, '            else:\n                return Response(context, mimetype="text/plain")\n', '            return None\n'))
# module-level label constants, isinstance class tuple alias
T('j17_mime_constants', ['C17'],
  (RS, 'class BasicRender(object):', "_JSON_MIME = 'application/json'\n_HTML_MIME = 'text/html'\n_TEXT_TYPES = (str, bytes)\n\n\nclass BasicRender(object):"),
  (RS, 'return Response(context, mimetype="application/json")', 'return Response(context, mimetype=_JSON_MIME)'),
  (RS, 'return Response(context, mimetype="text/html")', 'return Response(context, mimetype=_HTML_MIME)'),
  (RS, _SR_DISPATCH, '''        if _JSON_MIME == resp_mime:
            return self.json_render(context)
        if resp_mime in (_HTML_MIME,):
            return self.tabular_render(context, _route)
'''))
B('j17_mime_constants_swapped', ['C17'], 'R17.c',
  (RS, 'class BasicRender(object):', "_JSON_MIME = 'text/html'\n_HTML_MIME = 'application/json'\n\n\nclass BasicRender(object):"),
  (RS, 'return Response(context, mimetype="application/json")', 'return Response(context, mimetype=_JSON_MIME)'),
  (RS, 'return Response(context, mimetype="text/html")', 'return Response(context, mimetype=_HTML_MIME)'))
# _serialize_to_resp: table read once into a local, nested ifs, renamed locals
T('j17_format_map_local', ['C17'],
  (RS, '''        resp_mime = self._format_mime_map.get(req_format)
        if not resp_mime and request.accept_mimetypes:
            resp_mime = request.accept_mimetypes.best_match(self.mimetypes)
''', '''        format_mime_map = self._format_mime_map
        resp_mime = format_mime_map.get(req_format)
        if not resp_mime:
            accepted = request.accept_mimetypes
            if accepted:
                resp_mime = accepted.best_match(self.mimetypes)
'''))
B('j17_html_branch_dropped', ['C17'], 'R17.e',
  (RS, "        elif resp_mime == 'text/html':\n            return self.tabular_render(context, _route)\n", ''))
# _guess_json: loop over the bracket pairs / one expression / class-level table / tuple of locals
# (variant j17_gj_pair_loop removed: it was decided by evaluating the function on sample bodies; the checker only reads shapes,
#  so this form is an ANALYSIS-ERROR now)
# (variant j17_gj_pair_loop_swapped removed with j17_gj_pair_loop: loop-over-pairs form is not read)
# (variant j17_gj_one_expression removed: it was decided by evaluating the function on sample bodies; the checker only reads shapes,
#  so this form is an ANALYSIS-ERROR now)
# (variant j17_gj_one_expression_ints removed: it was decided by evaluating the function on sample bodies; the checker only reads shapes,
#  so this form is an ANALYSIS-ERROR now)
# (variant j17_gj_table removed: it was decided by evaluating the function on sample bodies; the checker only reads shapes,
#  so this form is an ANALYSIS-ERROR now)
# (variant j17_gj_unguarded_index removed: it was decided by evaluating the function on sample bodies; the checker only reads shapes,
#  so this form is an ANALYSIS-ERROR now)
B('j17_gj_only_objects', ['C17'], 'R17.b',
  (RS, "        elif bytestr[:1] == b'[' and bytestr[-1:] == b']':\n            return True\n", ''))
# the encoder: guard clause, %r spelling, loop over converters
T('j17_encoder_guard_clause', ['C17'],
  (RS, _DEV_TAIL, "        if not self.dev_mode:\n            raise TypeError('cannot serialize to JSON: %r' % obj)\n        return '%r' % (obj,)\n"))
B('j17_encoder_guard_clause_flipped', ['C17'], 'R17.d',
  (RS, _DEV_TAIL, "        if self.dev_mode:\n            raise TypeError('cannot serialize to JSON: %r' % obj)\n        return '%r' % (obj,)\n"))
T('j17_dev_mode_local', ['C17'],
  (RS, "        self.dev_mode = kwargs.pop('dev_mode', True)\n        self.json_render = kwargs.pop('json_render',\n                                      JSONRender(dev_mode=self.dev_mode))",
       "        dev_mode = kwargs.pop('dev_mode', True)\n        self.dev_mode = dev_mode\n        self.json_render = kwargs.pop('json_render', JSONRender(False, dev_mode))"))
B('j17_dev_mode_local_not_forwarded', ['C17'], 'R17.d',
  (RS, "        self.dev_mode = kwargs.pop('dev_mode', True)\n        self.json_render = kwargs.pop('json_render',\n                                      JSONRender(dev_mode=self.dev_mode))",
       "        dev_mode = kwargs.pop('dev_mode', True)\n        self.dev_mode = dev_mode\n        self.json_render = kwargs.pop('json_render', JSONRender(False, False))"))
T('j17_render_basic_explicit_dev', ['C17'], (RS, 'render_basic = BasicRender()', 'render_basic = BasicRender(dev_mode=True)'))
B('j17_render_basic_not_dev', ['C17'], 'R17.d', (RS, 'render_basic = BasicRender()', 'render_basic = BasicRender(dev_mode=False)'))
# JSON renderers: shared response builder in the base class, inverted callback test
T('j17_shared_make_response', ['C17'],
  (RS, '''        resp = Response(json_iter, mimetype="application/json")
        resp.mimetype_params['charset'] = self.encoding
        return resp
''', '''        return self._make_response(json_iter, mimetype="application/json")

    def _make_response(self, body_iter, mimetype):
        resp = Response(body_iter, mimetype=mimetype)
        resp.mimetype_params['charset'] = self.encoding
        return resp
'''),
  (RS, '''        if not cb_name:
            return super(JSONPRender, self).__call__(context)
        json_iter = self.json_encoder.iterencode(context)
        resp_iter = itertools.chain([cb_name, '('], json_iter, [');'])
        resp = Response(resp_iter, mimetype="application/javascript")
        resp.mimetype_params['charset'] = self.encoding
        return resp
''', '''        if cb_name:
            json_iter = self.json_encoder.iterencode(context)
            resp_iter = itertools.chain([cb_name, '('], json_iter, [');'])
            return self._make_response(resp_iter, mimetype="application/javascript")
        return super().__call__(context)
'''))
B('j17_shared_make_response_wrong_label', ['C17'], 'R17.e',
  (RS, '''        resp = Response(json_iter, mimetype="application/json")
        resp.mimetype_params['charset'] = self.encoding
        return resp
''', '''        return self._make_response(json_iter, mimetype="application/json")

    def _make_response(self, body_iter, mimetype):
        resp = Response(body_iter, mimetype=mimetype)
        resp.mimetype_params['charset'] = self.encoding
        return resp
'''),
  (RS, '''        resp = Response(resp_iter, mimetype="application/javascript")
        resp.mimetype_params['charset'] = self.encoding
        return resp
''', '''        return self._make_response(resp_iter, mimetype="application/json")
'''))
# payload chosen by an if / elif chain, text recognised by "payload is not None"; class tuple alias
T('j17_payload_none_test', ['C17'],
  (RS, 'class BasicRender(object):', "_TEXT_TYPES = (str, bytes)\n\n\nclass BasicRender(object):"),
  (RS, _RR_TEXT, '''        payload = None
        if isinstance(context, str):
            payload = context.encode('utf8')
        elif isinstance(context, bytes):
            payload = context
        if payload is not None:
            if self._guess_json(payload):
                return Response(payload, mimetype="application/json")
            if b'<html' in payload[:168]:
                return Response(payload, mimetype="text/html")
            return Response(payload, mimetype="text/plain")
        assert not isinstance(context, _TEXT_TYPES)
'''))
B('j17_payload_none_test_bytes_lost', ['C17'], 'R17.c',
  (RS, _RR_TEXT, '''        payload = None
        if isinstance(context, str):
            payload = context.encode('utf8')
        if payload is not None:
            if self._guess_json(payload):
                return Response(payload, mimetype="application/json")
            if b'<html' in payload[:168]:
                return Response(payload, mimetype="text/html")
            return Response(payload, mimetype="text/plain")
'''))
T('j17_text_types_alias', ['C17'],
  (RS, 'class BasicRender(object):', "_TEXT_TYPES = (str, bytes)\n\n\nclass BasicRender(object):"),
  (RS, _RR_TEXT, '''        if isinstance(context, _TEXT_TYPES):
            body = context.encode('utf8') if isinstance(context, str) else context
            if self._guess_json(body):
                label = "application/json"
            else:
                label = "text/html" if b'<html' in body[:168] else "text/plain"
            return Response(body, mimetype=label)
'''))
# the encoder: contextlib.suppress instead of try / except / pass
T('j17_encoder_suppress', ['C17'],
  (RS, 'import itertools\n', 'import itertools\nfrom contextlib import suppress\n'),
  (RS, '            try:\n                return dict(obj)\n            except Exception:\n                pass\n', '            with suppress(Exception):\n                return dict(obj)\n'),
  (RS, '            try:\n                return list(obj)\n            except Exception:\n                pass\n', '            with suppress(Exception):\n                return list(obj)\n'))
B('j17_encoder_suppress_narrow', ['C17'], 'R17.d',
  (RS, 'import itertools\n', 'import itertools\nfrom contextlib import suppress\n'),
  (RS, '            try:\n                return dict(obj)\n            except Exception:\n                pass\n', '            with suppress(KeyError):\n                return dict(obj)\n'))
# error JSON: encoder options collected in a dict first
T('j17_to_json_options_dict', ['C17'],
  (E, '''        encoder = ClasticJSONEncoder(dev_mode=True, indent=indent,
                                     sort_keys=sort_keys, ensure_ascii=False,
                                     skipkeys=skipkeys)
''', '''        options = dict(dev_mode=True, indent=indent, sort_keys=sort_keys,
                       ensure_ascii=False, skipkeys=skipkeys)
        encoder = ClasticJSONEncoder(**options)
'''))
B('j17_to_json_options_dict_no_dev', ['C17'], 'R17.d',
  (E, '''        encoder = ClasticJSONEncoder(dev_mode=True, indent=indent,
                                     sort_keys=sort_keys, ensure_ascii=False,
                                     skipkeys=skipkeys)
''', '''        options = dict(indent=indent, sort_keys=sort_keys,
                       ensure_ascii=False, skipkeys=skipkeys)
        encoder = ClasticJSONEncoder(**options)
'''))
# sniffing constants named at module / class level, keyword spellings, Response imported under another name
T('j17_named_sniff_constants', ['C17'],
  (RS, 'class BasicRender(object):', "_HTML_MARKER = b'<html'\n\n\nclass BasicRender(object):\n    _sniff_window = 168"),
  (RS, "            if self._guess_json(context):", "            if self._guess_json(bytestr=context):"),
  (RS, "            elif b'<html' in context[:168]:", "            elif _HTML_MARKER in context[:self._sniff_window]:"),
  (RS, 'return Response(str(context), mimetype="text/plain")\n        return self._serialize_to_resp(context, request, _route)',
       'return Response(response=str(context), mimetype="text/plain")\n        return self._serialize_to_resp(_route=_route, request=request, context=context)'),
  (RS, 'from werkzeug.wrappers import Response\n', 'from werkzeug.wrappers import Response as _Response\n'),
  (RS, 're:\\bResponse\\(', '_Response('))
B('j17_named_sniff_constant_str', ['C17'], 'R17.b',
  (RS, 'class BasicRender(object):', "_HTML_MARKER = '<html'\n\n\nclass BasicRender(object):"),
  (RS, "            elif b'<html' in context[:168]:", "            elif _HTML_MARKER in context[:168]:"))
# the JSON guess under another (private) name; the sniffing in a public helper method
# (variant j17_guess_renamed removed: it was decided by evaluating the function on sample bodies; the checker only reads shapes,
#  so this form is an ANALYSIS-ERROR now)
B('j17_guess_renamed_ints', ['C17'], 'R17.b', (RS, 're:_guess_json', '_looks_like_json'), (RS, "bytestr[:1] == b'['", "bytestr[0] == b'['"))
T('j17_public_sniff_method', ['C17'],
  (RS, '''            if self._guess_json(context):
                return Response(context, mimetype="application/json")
            elif b'<html' in context[:168]:
                # based on the longest DOCTYPE I found in a brief search
                return Response(context, mimetype="text/html")
            else:
                return Response(context, mimetype="text/plain")
''', '            return Response(context, mimetype=self.sniff_mimetype(context))\n'),
  (RS, _SR_HEAD, '''    def sniff_mimetype(self, body):
        if self._guess_json(body):
            return "application/json"
        return "text/html" if b'<html' in body[:168] else "text/plain"

''' + _SR_HEAD))
B('j17_public_sniff_method_html_first', ['C17'], 'R17.c',
  (RS, '''            if self._guess_json(context):
                return Response(context, mimetype="application/json")
            elif b'<html' in context[:168]:
                # based on the longest DOCTYPE I found in a brief search
                return Response(context, mimetype="text/html")
            else:
                return Response(context, mimetype="text/plain")
''', '            return Response(context, mimetype=self.sniff_mimetype(context))\n'),
  (RS, _SR_HEAD, '''    def sniff_mimetype(self, body):
        if b'<html' in body[:168]:
            return "text/html"
        return "application/json" if self._guess_json(body) else "text/plain"

''' + _SR_HEAD))
# _serialize_to_resp: the default renderer as fall-through (the mime was normalised to a table value just before)
T('j17_json_fallthrough', ['C17'],
  (RS, _SR_DISPATCH + '        return Response(str(context), mimetype="text/plain")\n',
       "        if resp_mime == 'text/html':\n            return self.tabular_render(context, _route)\n        return self.json_render(context)\n"))
B('j17_json_fallthrough_swapped', ['C17'], 'R17.c',
  (RS, _SR_DISPATCH + '        return Response(str(context), mimetype="text/plain")\n',
       "        if resp_mime == 'text/html':\n            return self.json_render(context)\n        return self.tabular_render(context, _route)\n"))
T('j17_named_mime_tests', ['C17'],
  (RS, _SR_DISPATCH, "        wants_json = resp_mime == 'application/json'\n        wants_html = 'text/html' == resp_mime\n"
       "        if wants_json:\n            return self.json_render(context)\n        if wants_html:\n            render_table = self.tabular_render\n            return render_table(context, _route)\n"))
# the encoder's last resort in a (public) method of its own
T('j17_encoder_fallback_method', ['C17'],
  (RS, _DEV_TAIL, "        return self.fallback(obj)\n\n    def fallback(self, value):\n        if not self.dev_mode:\n"
       "            raise TypeError('cannot serialize to JSON: %r' % value)\n        return repr(value)\n"))
B('j17_encoder_fallback_method_always_raises', ['C17'], 'R17.d',
  (RS, _DEV_TAIL, "        return self.fallback(obj)\n\n    def fallback(self, value):\n"
       "        raise TypeError('cannot serialize to JSON: %r' % value)\n"))

# ------------------------------------------------------------------ second pass
TB = 'clastic/render/tabular.py'
_RR_STR = "        if isinstance(context, str):  # already serialized but not encoded\n"
_RR_BYTES = "        if isinstance(context, bytes):  # already serialized and encoded\n"


def _payload_form(test):
    """render_response with the text normalised into one local that is None for everything else."""
    return _RR_TEXT, '''        if isinstance(context, str):
            payload = context.encode('utf8')
        elif isinstance(context, bytes):
            payload = context
        else:
            payload = None
        if %s:
            if self._guess_json(payload):
                return Response(payload, mimetype="application/json")
            elif b'<html' in payload[:168]:
                return Response(payload, mimetype="text/html")
            return Response(payload, mimetype="text/plain")
''' % test


# R17.c: the empty text is text -- '' and b'' take the text branch (text/plain); what separates "already serialized"
# from "to be serialized" is the type of the result, never the truthiness / length of the text or of its encoded form
T('j17_payload_none_is_not_none', ['C17'], (RS,) + _payload_form('payload is not None'))
T('j17_payload_none_isinstance', ['C17'], (RS,) + _payload_form('isinstance(payload, bytes)'))
B('j17_payload_none_truthiness', ['C17'], 'R17.c', (RS,) + _payload_form('payload'))
B('j17_payload_none_len', ['C17'], 'R17.c', (RS,) + _payload_form('payload is not None and len(payload) > 0'))
B('j17_nonempty_bytes_only', ['C17'], 'R17.c', (RS, _RR_BYTES, "        if context and isinstance(context, bytes):\n"))
B('j17_nonempty_str_only', ['C17'], 'R17.c', (RS, _RR_STR, "        if isinstance(context, str) and len(context) != 0:\n"))
B('j17_empty_text_to_serializer', ['C17'], 'R17.c',
  (RS, _RR_STR, "        if context == '' or context == b'':\n            return self._serialize_to_resp(context, request, _route)\n" + _RR_STR))
# an explicit early answer for the empty text is fine as long as it is the text/plain one
T('j17_empty_text_early_plain', ['C17'],
  (RS, _RR_STR, "        if isinstance(context, (str, bytes)) and not context:\n"
                "            return Response(context, mimetype=\"text/plain\")\n" + _RR_STR))
B('j17_empty_text_early_json', ['C17'], 'R17.c',
  (RS, _RR_STR, "        if isinstance(context, (str, bytes)) and not context:\n"
                "            return Response(context, mimetype=\"application/json\")\n" + _RR_STR))
T('j17_text_test_not_none_guard', ['C17'], (RS, _RR_BYTES, "        if context is not None and isinstance(context, bytes):\n"))

# R17.f: every .format / % on the render paths formats a constant template; data goes in as arguments
_TITLE = '''        title = ('<h2><small><sub>%s</sub></small><br/>%s(%s)</h2>%s'
                 % (ctx_label, func_name, argstr, html_doc))
'''
_HTML_DOC = "            html_doc = '<p style=\"white-space: pre;\">%s</p>' % escaped_doc\n"
T('j17_title_format_all_arguments', ['C17'],
  (TB, _TITLE, "        title = '<h2><small><sub>{0}</sub></small><br/>{1}({2})</h2>{3}'.format(ctx_label, func_name, argstr, html_doc)\n"))
T('j17_title_template_constants', ['C17'],
  (TB, _TITLE, "        title = (self._title_head + self._title_tail) % (ctx_label, func_name, argstr, html_doc)\n"),
  (TB, "    _html_doctype = '<!doctype html>'\n", "    _html_doctype = '<!doctype html>'\n    _title_head = '<h2><small><sub>%s</sub></small><br/>'\n"
       "    _title_tail = '%s(%s)</h2>%s'\n"))
T('j17_title_joined_constant_template', ['C17'],
  (TB, _TITLE, "        pieces = ['<h2><small><sub>{0}</sub></small><br/>']\n        pieces.append('{1}({2})</h2>')\n        pieces.append('{3}')\n"
               "        title = ''.join(pieces).format(ctx_label, func_name, argstr, html_doc)\n"))
T('j17_doc_paragraph_concatenated', ['C17'],
  (TB, _HTML_DOC, "            html_doc = '<p style=\"white-space: pre;\">' + escaped_doc + '</p>'\n"))
B('j17_doc_in_format_template', ['C17'], 'R17.f',
  (TB, _TITLE, "        title = ('<h2><small><sub>{0}</sub></small><br/>{1}({2})</h2>' + html_doc).format(ctx_label, func_name, argstr)\n"))
B('j17_argstr_in_percent_template', ['C17'], 'R17.f',
  (TB, _TITLE, "        head = '<h2><small><sub>%s</sub></small><br/>%s(' + argstr + ')</h2>%s'\n        title = head % (ctx_label, func_name, html_doc)\n"))
B('j17_fstring_then_format', ['C17'], 'R17.f',
  (TB, _TITLE, "        title = f'<h2><small><sub>{ctx_label}</sub></small><br/>{func_name}({argstr})</h2>{{0}}'.format(html_doc)\n"))
B('j17_joined_pieces_with_data_formatted', ['C17'], 'R17.f',
  (TB, _TITLE, "        pieces = ['<h2><small><sub>{0}</sub></small><br/>']\n        pieces.append(func_name)\n        pieces.append('({1})</h2>{2}')\n"
               "        title = ''.join(pieces).format(ctx_label, argstr, html_doc)\n"))
B('j17_formatted_twice', ['C17'], 'R17.f',
  (TB, _TITLE, "        title = '<h2><small><sub>%s</sub></small><br/>%s(%s)</h2>' % (ctx_label, func_name, argstr)\n"
               "        title = (title + '%s') % html_doc\n"))
B('j17_url_in_anchor_template', ['C17'], 'R17.f',
  (TB, "        cur_url_anchor = '<a href=\"{0}\">{0}</a>'.format(cur_url_text)\n",
       "        cur_url_anchor = ('<a href=\"' + cur_url_text + '\">{0}</a>').format(cur_url_text)\n"))
B('j17_encoder_message_template', ['C17'], 'R17.f',
  (RS, "        raise TypeError('cannot serialize to JSON: %r' % obj)", "        raise TypeError(('cannot serialize %s to JSON: ' % type(obj).__name__ + '%r') % obj)"))

# ------------------------------------------------------------------ third pass
# R17.b: the JSON guess is read by shape into one predicate over (empty?, first byte, last byte), whichever way it is
# spelled: branching on comparisons, membership of the (first, last) pair / of the concatenation of the two one-byte
# slices in a constant collection (folded), a loop / any() over a constant table of pairs, an opening -> closing table.
# It must admit exactly the pairs ({, }) and ([, ]), reject the empty input and never touch an element of a possibly
# empty value.
_GJ_DEF = "    @staticmethod\n    def _guess_json(bytestr: bytes):\n"
_GJ_CLASS = 'class BasicRender(object):\n'
_GJ_GUARD = "        if not bytestr:\n            return False\n"


def _gj_pairs(pairs, test='(first_byte, last_byte)', unpack="bytestr[:1], bytestr[-1:]", guard=_GJ_GUARD):
    """The guess as membership of the (first, last) pair in a module-level constant."""
    return [(RS, _GJ_CLASS, "_JSON_DELIMITERS = %s\n\n\n%s" % (pairs, _GJ_CLASS)),
            (RS, _GJ, "%s        first_byte, last_byte = %s\n        return %s in _JSON_DELIMITERS\n" % (guard, unpack, test))]


_PAIRS_OK = "((b'{', b'}'), (b'[', b']'))"
T('j17_gj_pair_in_module_constant', ['C17'], *_gj_pairs(_PAIRS_OK))
T('j17_gj_pair_in_frozenset', ['C17'], *_gj_pairs("frozenset([(b'[', b']'), (b'{', b'}')])"))
T('j17_gj_pair_in_constant_no_guard', ['C17'], *_gj_pairs(_PAIRS_OK, guard=''))   # slices of b'' are b'': no pair matches
B('j17_gj_pair_constant_pair_missing', ['C17'], 'R17.b', *_gj_pairs("((b'{', b'}'),)"))
B('j17_gj_pair_constant_mismatched', ['C17'], 'R17.b', *_gj_pairs("((b'{', b']'), (b'[', b'}'))"))
B('j17_gj_pair_constant_extra_pair', ['C17'], 'R17.b', *_gj_pairs("((b'{', b'}'), (b'[', b']'), (b'\"', b'\"'))"))
B('j17_gj_pair_swapped', ['C17'], 'R17.b', *_gj_pairs(_PAIRS_OK, test='(last_byte, first_byte)'))
B('j17_gj_pair_first_twice', ['C17'], 'R17.b', *_gj_pairs(_PAIRS_OK, unpack="bytestr[:1], bytestr[:1]"))
B('j17_gj_pair_int_elements', ['C17'], 'R17.b', *_gj_pairs(_PAIRS_OK, unpack="bytestr[0], bytestr[-1]"))
B('j17_gj_pair_str_constants', ['C17'], 'R17.b', *_gj_pairs("(('{', '}'), ('[', ']'))"))
B('j17_gj_pair_list_vs_tuples', ['C17'], 'R17.b', *_gj_pairs(_PAIRS_OK, test='[first_byte, last_byte]'))
# elements instead of slices are fine against int constants -- as long as emptiness is ruled out first
T('j17_gj_int_pairs_guarded', ['C17'], *_gj_pairs("((123, 125), (91, 93))", unpack="bytestr[0], bytestr[-1]"))
B('j17_gj_int_pairs_unguarded', ['C17'], 'R17.b', *_gj_pairs("((123, 125), (91, 93))", unpack="bytestr[0], bytestr[-1]", guard=''))
B('j17_gj_int_pairs_indexed_before_guard', ['C17'], 'R17.b',
  (RS, _GJ_CLASS, "_JSON_DELIMITERS = ((123, 125), (91, 93))\n\n\n" + _GJ_CLASS),
  (RS, _GJ, "        first_byte, last_byte = bytestr[0], bytestr[-1]\n" + _GJ_GUARD + "        return (first_byte, last_byte) in _JSON_DELIMITERS\n"))
# one expression; the concatenation of the two slices
T('j17_gj_one_expression', ['C17'],
  (RS, _GJ, "        return bool(bytestr) and (bytestr[:1], bytestr[-1:]) in ((b'{', b'}'), (b'[', b']'))\n"))
B('j17_gj_one_expression_ints', ['C17'], 'R17.b',
  (RS, _GJ, "        return bool(bytestr) and (bytestr[0], bytestr[-1]) in ((b'{', b'}'), (b'[', b']'))\n"))
B('j17_gj_one_expression_or', ['C17'], 'R17.b',
  (RS, _GJ, "        return bool(bytestr) or (bytestr[:1], bytestr[-1:]) in ((b'{', b'}'), (b'[', b']'))\n"))
T('j17_gj_concatenation', ['C17'], (RS, _GJ, "        return bytestr[:1] + bytestr[-1:] in (b'{}', b'[]')\n"))
T('j17_gj_concatenation_class_set', ['C17'],
  (RS, _GJ_DEF + _GJ, "    _JSON_ENDS = {b'{}', b'[]'}\n\n    @classmethod\n    def _guess_json(cls, bytestr: bytes):\n"
       "        ends = bytestr[0:1] + bytestr[-1:]\n        return len(bytestr) >= 2 and ends in cls._JSON_ENDS\n"))
B('j17_gj_concatenation_wrong_constant', ['C17'], 'R17.b', (RS, _GJ, "        return bytestr[:1] + bytestr[-1:] in (b'{}', b'[)')\n"))
B('j17_gj_concatenation_reversed', ['C17'], 'R17.b', (RS, _GJ, "        return bytestr[-1:] + bytestr[:1] in (b'{}', b'[]')\n"))
B('j17_gj_concatenation_str_constants', ['C17'], 'R17.b', (RS, _GJ, "        return bytestr[:1] + bytestr[-1:] in ('{}', '[]')\n"))
B('j17_gj_concatenation_accepts_empty', ['C17'], 'R17.b', (RS, _GJ, "        return bytestr[:1] + bytestr[-1:] in (b'', b'{}', b'[]')\n"))
# loop / any() over a constant table of pairs; opening -> closing table
_GJ_LOOP = _GJ_GUARD + '''        for opening, closing in %s:
            if bytestr[:1] == opening and bytestr[-1:] == closing:
                return True
        return False
'''
T('j17_gj_pair_loop', ['C17'], (RS, _GJ, _GJ_LOOP % _PAIRS_OK))
B('j17_gj_pair_loop_swapped', ['C17'], 'R17.b', (RS, _GJ, _GJ_LOOP % "((b'{', b']'), (b'[', b'}'))"))
B('j17_gj_pair_loop_first_only', ['C17'], 'R17.b',
  (RS, _GJ, _GJ_GUARD + "        for opening, closing in %s:\n            if bytestr[:1] == opening:\n                return True\n        return False\n" % _PAIRS_OK))
T('j17_gj_any_startswith_endswith', ['C17'],
  (RS, _GJ_CLASS, "_JSON_DELIMITERS = %s\n\n\n%s" % (_PAIRS_OK, _GJ_CLASS)),
  (RS, _GJ, "        return any(bytestr.startswith(o) and bytestr.endswith(c) for o, c in _JSON_DELIMITERS)\n"))
B('j17_gj_any_startswith_or_endswith', ['C17'], 'R17.b',
  (RS, _GJ_CLASS, "_JSON_DELIMITERS = %s\n\n\n%s" % (_PAIRS_OK, _GJ_CLASS)),
  (RS, _GJ, "        return any(bytestr.startswith(o) or bytestr.endswith(c) for o, c in _JSON_DELIMITERS)\n"))
_GJ_TABLE = ("    _JSON_BRACKETS = %s\n\n    @classmethod\n    def _guess_json(cls, bytestr):\n"
             "        first, last = bytestr[:1], bytestr[-1:]\n        return bool(first) and cls._JSON_BRACKETS.get(first) == last\n")
T('j17_gj_table', ['C17'], (RS, _GJ_DEF + _GJ, _GJ_TABLE % "{b'{': b'}', b'[': b']'}"))
B('j17_gj_table_closing_to_opening', ['C17'], 'R17.b', (RS, _GJ_DEF + _GJ, _GJ_TABLE % "{b'}': b'{', b']': b'['}"))
B('j17_gj_table_int_keys', ['C17'], 'R17.b', (RS, _GJ_DEF + _GJ, _GJ_TABLE % "{123: 125, 91: 93}"))
# the branching form: one matching pair replaced by a mismatched one; the empty input answered by an exception
B('j17_gj_branch_mismatched', ['C17'], 'R17.b', (RS, "bytestr[:1] == b'[' and bytestr[-1:] == b']'", "bytestr[:1] == b'[' and bytestr[-1:] == b'}'"))
B('j17_gj_branch_last_open', ['C17'], 'R17.b', (RS, "bytestr[:1] == b'[' and bytestr[-1:] == b']'", "bytestr[:1] == b'['"))
B('j17_gj_empty_raises', ['C17'], 'R17.b', (RS, _GJ_GUARD, "        if not bytestr:\n            raise ValueError('empty body')\n"))
B('j17_gj_always_false', ['C17'], 'R17.b', (RS, _GJ, "        return False\n"))
T('j17_gj_len_guard', ['C17'], (RS, _GJ_GUARD, "        if len(bytestr) < 2:\n            return False\n"))

# ------------------------------------------------------------------ fourth pass
# R17.g: kinds of value in the encoder -- an instance, a plain class, a class with a metaclass.  A conversion method
# fetched from the object is called only where every kind of class is excluded by the type tests on the way.
_CONV = '''        if not isinstance(obj, type):
            if callable(getattr(obj, 'to_dict', None)):
                return obj.to_dict()
            if callable(getattr(obj, 'asdict', None)):
                return obj.asdict()
            if callable(getattr(obj, 'isoformat', None)):
                return obj.isoformat()
'''
_CONV_NAMES = "('to_dict', 'asdict', 'isoformat')"
_ENC_CLASS = 'class ClasticJSONEncoder(JSONEncoder):\n'


def _conv_loop(guard, inner='callable(converter)'):
    return (RS, _CONV, '''        if %s:
            for name in %s:
                converter = getattr(obj, name, None)
                if %s:
                    return converter()
''' % (guard, _CONV_NAMES, inner))


def _conv_helper(test):
    """The conversions in a module-level helper that answers None for what it takes to be a class."""
    return [(RS, _ENC_CLASS, '''_CONVERSIONS = %s


def _conversion_of(obj):
    if %s:
        return None
    for name in _CONVERSIONS:
        converter = getattr(obj, name, None)
        if callable(converter):
            return converter
    return None


%s''' % (_CONV_NAMES, test, _ENC_CLASS)),
            (RS, _CONV, '        converter = _conversion_of(obj)\n        if converter is not None:\n            return converter()\n')]


T('j17_kind_loop_isinstance', ['C17'], _conv_loop('not isinstance(obj, type)'))
T('j17_kind_helper_isinstance', ['C17'], *_conv_helper('isinstance(obj, type)'))
T('j17_kind_isclass', ['C17'], (RS, 'import itertools\n', 'import itertools\nimport inspect\n'), _conv_loop('not inspect.isclass(obj)'))
T('j17_kind_guard_at_call', ['C17'], _conv_loop('True', 'callable(converter) and not isinstance(obj, type)'))
T('j17_kind_bound_method_test', ['C17'], (RS, 'import itertools\n', 'import itertools\nimport inspect\n'),
  _conv_loop('True', 'inspect.ismethod(converter)'))
T('j17_kind_issubclass_of_type', ['C17'], _conv_loop('not issubclass(type(obj), type)'))
T('j17_kind_class_answered_first', ['C17'],
  (RS, _CONV, "        if isinstance(obj, type):\n            if self.dev_mode:\n                return repr(obj)\n"
              "            raise TypeError('cannot serialize to JSON: %r' % obj)\n"
              "        for name in " + _CONV_NAMES + ":\n            if callable(getattr(obj, name, None)):\n                return getattr(obj, name)()\n"))
B('j17_kind_type_is_type', ['C17'], 'R17.g', (RS, 'if not isinstance(obj, type):', 'if type(obj) is not type:'))
B('j17_kind_dunder_class_eq_type', ['C17'], 'R17.g', (RS, 'if not isinstance(obj, type):', 'if not obj.__class__ == type:'))
B('j17_kind_type_in_tuple', ['C17'], 'R17.g', (RS, 'if not isinstance(obj, type):', 'if type(obj) not in (type,):'))
B('j17_kind_helper_type_is_type', ['C17'], 'R17.g', *_conv_helper('type(obj) is type'))
B('j17_kind_loop_unguarded', ['C17'], 'R17.g', _conv_loop('True'))
B('j17_kind_loop_guard_on_converter', ['C17'], 'R17.g', _conv_loop('True', 'callable(converter) and not isinstance(converter, type)'))
B('j17_kind_guard_not_on_last', ['C17'], 'R17.g',
  (RS, "            if callable(getattr(obj, 'isoformat', None)):\n                return obj.isoformat()\n",
       "        if callable(getattr(obj, 'isoformat', None)):\n            return obj.isoformat()\n"))
B('j17_kind_getattr_called_directly', ['C17'], 'R17.g',
  (RS, _CONV, "        for name in " + _CONV_NAMES + ":\n            if hasattr(obj, name):\n                return getattr(obj, name)()\n"))
B('j17_kind_only_instances_of_object_excluded', ['C17'], 'R17.g', (RS, 'if not isinstance(obj, type):', 'if not isinstance(obj, (int, float)):'))

# R17.h: renderers are shared by all requests -- nothing on the render path stores what it learns from one request in
# the renderer / its class / a module-level object / a mutable default and reads it back
_SR_NEG = '''        resp_mime = self._format_mime_map.get(req_format)
        if not resp_mime and request.accept_mimetypes:
            resp_mime = request.accept_mimetypes.best_match(self.mimetypes)
        if resp_mime not in self._mime_format_map:
            resp_mime = self._default_mime
'''
_BR_CLASS = "class BasicRender(object):\n    _default_mime = 'application/json'\n"
_BR_INIT_END = "        self.tabular_render = kwargs.pop('tabular_render', default_tabular)\n"
B('j17_shared_accept_memo_items', ['C17'], 'R17.h',
  (RS, _BR_INIT_END, _BR_INIT_END + "        self._negotiated = {}\n"),
  (RS, _SR_NEG, '''        accept = request.headers.get('Accept', '')
        resp_mime = self._format_mime_map.get(req_format)
        if not resp_mime and accept in self._negotiated:
            resp_mime = self._negotiated[accept]
        if not resp_mime and request.accept_mimetypes:
            resp_mime = request.accept_mimetypes.best_match(self.mimetypes)
        if resp_mime not in self._mime_format_map:
            resp_mime = self._default_mime
        self._negotiated[accept] = resp_mime
'''))
B('j17_shared_class_memo_alias', ['C17'], 'R17.h',
  (RS, _BR_CLASS, _BR_CLASS + "    _memo = {}\n"),
  (RS, _SR_NEG, '''        memo = self._memo
        key = str(request.accept_mimetypes)
        resp_mime = self._format_mime_map.get(req_format) or memo.get(key)
        if not resp_mime and request.accept_mimetypes:
            resp_mime = request.accept_mimetypes.best_match(self.mimetypes)
        if resp_mime not in self._mime_format_map:
            resp_mime = self._default_mime
        memo[key] = resp_mime
'''))
B('j17_shared_module_level_last', ['C17'], 'R17.h',
  (RS, 'class BasicRender(object):\n', '_LAST_MIME = [None]\n\n\nclass BasicRender(object):\n'),
  (RS, _SR_NEG, '''        resp_mime = self._format_mime_map.get(req_format)
        if not resp_mime and request.accept_mimetypes:
            resp_mime = request.accept_mimetypes.best_match(self.mimetypes)
        if resp_mime not in self._mime_format_map:
            resp_mime = _LAST_MIME[0] or self._default_mime
        _LAST_MIME[0] = resp_mime
'''))
B('j17_shared_global_statement', ['C17'], 'R17.h',
  (RS, 'class BasicRender(object):\n', '_last_format = None\n\n\nclass BasicRender(object):\n'),
  (RS, "        req_format = request.args.get(self.qp_name)  # explicit GET query param\n",
       "        global _last_format\n        req_format = request.args.get(self.qp_name) or _last_format\n        _last_format = req_format\n"))
B('j17_shared_sticky_format_attribute', ['C17'], 'R17.h',
  (RS, "        req_format = request.args.get(self.qp_name)  # explicit GET query param\n",
       "        req_format = request.args.get(self.qp_name)\n        if req_format:\n            self._sticky_format = req_format\n"
       "        else:\n            req_format = getattr(self, '_sticky_format', None)\n"))
B('j17_shared_mutable_default', ['C17'], 'R17.h',
  (RS, '    def _serialize_to_resp(self, context, request, _route):', '    def _serialize_to_resp(self, context, request, _route, _seen={}):'),
  (RS, _SR_NEG, _SR_NEG + "        resp_mime = _seen.setdefault(request.path, resp_mime)\n"))
B('j17_shared_streaming_flag_flips', ['C17'], 'R17.h',
  (RS, "    def __call__(self, context):\n        if self.streaming:", "    def __call__(self, context):\n        if isinstance(context, list) and len(context) > 1000:\n"
       "            self.streaming = True\n        if self.streaming:"))
B('j17_shared_encoder_seen_set', ['C17'], 'R17.h',
  (RS, "    def default(self, obj):\n", "    _seen = set()\n\n    def default(self, obj):\n        if id(obj) in self._seen:\n            return None\n        self._seen.add(id(obj))\n"))
B('j17_shared_setattr_last_context', ['C17'], 'R17.h',
  (RS, "        # not serialized yet, time to guess what the requester wants\n",
       "        if context is None:\n            context = getattr(self, 'last_context', None)\n        setattr(self, 'last_context', context)\n"))
T('j17_shared_local_memo', ['C17'],
  (RS, _SR_NEG, "        chosen = {}\n" + _SR_NEG + "        chosen[req_format] = resp_mime\n        assert chosen\n"))
T('j17_shared_config_cache', ['C17'],
  (RS, _BR_CLASS, _BR_CLASS + "    _served_mimes = None\n"),
  (RS, "        resp_mime = self._format_mime_map.get(req_format)\n",
       "        if self._served_mimes is None:\n            self._served_mimes = tuple(self._format_mime_map.values())\n"
       "        resp_mime = self._format_mime_map.get(req_format)\n"),
  (RS, "            resp_mime = request.accept_mimetypes.best_match(self.mimetypes)\n",
       "            resp_mime = request.accept_mimetypes.best_match(self._served_mimes)\n"))
T('j17_shared_write_only_counter', ['C17'],
  (RS, _BR_CLASS, _BR_CLASS + "    rendered = 0\n"),
  (RS, "        # not serialized yet, time to guess what the requester wants\n", "        self.rendered += 1\n"))
T('j17_shared_fresh_response_header', ['C17'],
  (RS, "        resp.mimetype_params['charset'] = self.encoding\n        return resp\n\n\nclass JSONPRender",
       "        resp.mimetype_params['charset'] = self.encoding\n        resp.headers['X-Content-Type-Options'] = 'nosniff'\n        return resp\n\n\nclass JSONPRender"))
# a request-independent value, written once -- but by whichever request asks for html first, and read before the fill
B('j17_shared_lazy_fill_read_before', ['C17'], 'R17.h',
  (RS, _BR_CLASS, _BR_CLASS + "    _preferred = None\n"),
  (RS, "            resp_mime = self._default_mime\n",
       "            resp_mime = self._preferred or self._default_mime\n        if req_format == 'html' and self._preferred is None:\n"
       "            self._preferred = 'text/html'\n"))

# R17.i: the render paths answer 200 and raise only for an explicitly requested unknown format
_SR_REJECT = "        if req_format and req_format not in self._format_mime_map:\n"
_SR_QP = "        req_format = request.args.get(self.qp_name)  # explicit GET query param\n"
T('j17_status_explicit_200', ['C17'], (RS, 'return Response(context, mimetype="text/plain")', 'return Response(context, status=200, mimetype="text/plain")'))
B('j17_status_positional_204', ['C17'], 'R17.i', (RS, 'return Response(str(context), mimetype="text/plain")', 'return Response(str(context), 204, mimetype="text/plain")'))
B('j17_status_keyword_203', ['C17'], 'R17.i', (RS, 'return Response(context, mimetype="text/plain")', 'return Response(context, status=203, mimetype="text/plain")'))
B('j17_status_code_store', ['C17'], 'R17.i',
  (RS, "        resp.mimetype_params['charset'] = self.encoding\n        return resp\n\n\nclass JSONPRender",
       "        resp.mimetype_params['charset'] = self.encoding\n        resp.status_code = 202\n        return resp\n\n\nclass JSONPRender"))
B('j17_status_named_constant', ['C17'], 'R17.i',
  (TB, "    _html_doctype = '<!doctype html>'\n", "    _html_doctype = '<!doctype html>'\n    _status = 206\n"),
  (TB, "mimetype='text/html')", "mimetype='text/html', status=self._status)"))
T('j17_reject_nested_ifs', ['C17'], (RS, _SR_REJECT, "        if req_format:\n          if req_format not in self.formats:\n"))
T('j17_reject_table_alias', ['C17'], (RS, _SR_REJECT, "        known = self._format_mime_map\n        if req_format and req_format not in known.keys():\n"))
B('j17_reject_absent_format', ['C17'], 'R17.i', (RS, _SR_REJECT, "        if req_format not in self._format_mime_map:\n"))
B('j17_reject_guard_on_other_value', ['C17'], 'R17.i', (RS, _SR_REJECT, "        if request.args and req_format not in self._format_mime_map:\n"))
B('j17_raise_on_empty_result', ['C17'], 'R17.i', (RS, _SR_QP, "        if not context:\n            raise ValueError('nothing to render')\n" + _SR_QP))
B('j17_raise_in_tabular', ['C17'], 'R17.i',
  (TB, "        content_parts = [self._html_wrapper]\n", "        if len(context) == 0:\n            raise LookupError('nothing to tabulate')\n        content_parts = [self._html_wrapper]\n"))
B('j17_tabular_label_plain', ['C17'], 'R17.e', (TB, "mimetype='text/html')", "mimetype='text/plain')"))
B('j17_tabular_label_missing', ['C17'], 'R17.e', (TB, "return Response('\\n'.join(content_parts), mimetype='text/html')", "return Response('\\n'.join(content_parts))"))
T('j17_tabular_label_constant', ['C17'],
  (TB, "    _html_doctype = '<!doctype html>'\n", "    _html_doctype = '<!doctype html>'\n    _mimetype = 'text/html'\n"),
  (TB, "mimetype='text/html')", "mimetype=self._mimetype)"))

# R17.k: provenance and precedence of the negotiated mime
_SR_F = "        resp_mime = self._format_mime_map.get(req_format)\n"
_SR_A = "        if not resp_mime and request.accept_mimetypes:\n            resp_mime = request.accept_mimetypes.best_match(self.mimetypes)\n"
_SR_D = "        if resp_mime not in self._mime_format_map:\n            resp_mime = self._default_mime\n"
T('j17_neg_if_elif_chain', ['C17'],
  (RS, _SR_NEG, '''        if req_format:
            resp_mime = self._format_mime_map[req_format]
        elif request.accept_mimetypes:
            resp_mime = request.accept_mimetypes.best_match(list(self._format_mime_map.values()))
        else:
            resp_mime = None
        if resp_mime not in self.mimetypes:
            resp_mime = self._default_mime
'''))
T('j17_neg_one_expression', ['C17'],
  (RS, _SR_F + _SR_A, "        accepted = request.accept_mimetypes\n"
       "        resp_mime = self._format_mime_map.get(req_format) or (accepted and accepted.best_match(self.mimetypes))\n"))
T('j17_neg_served_constant', ['C17'], (RS, 'best_match(self.mimetypes)', "best_match(('application/json', 'text/html'))"))
T('j17_neg_default_conditional_expression', ['C17'],
  (RS, _SR_D, "        resp_mime = resp_mime if resp_mime in self._mime_format_map else self._default_mime\n"))
B('j17_neg_accept_first', ['C17'], 'R17.k',
  (RS, _SR_F + _SR_A, "        resp_mime = None\n        if request.accept_mimetypes:\n            resp_mime = request.accept_mimetypes.best_match(self.mimetypes)\n"
       "        if not resp_mime:\n            resp_mime = self._format_mime_map.get(req_format)\n"))
B('j17_neg_default_overrides', ['C17'], 'R17.k', (RS, "        if resp_mime not in self._mime_format_map:\n", "        if resp_mime in self._mime_format_map:\n"))
B('j17_neg_default_in_else', ['C17'], 'R17.k',
  (RS, _SR_A + _SR_D, _SR_A + "        else:\n            resp_mime = self._default_mime\n"))
B('j17_neg_offered_html_only', ['C17'], 'R17.k', (RS, 'best_match(self.mimetypes)', "best_match(['text/html'])"))
B('j17_neg_offered_formats', ['C17'], 'R17.k', (RS, 'best_match(self.mimetypes)', "best_match(self.formats)"))
B('j17_neg_format_ignored', ['C17'], 'R17.k', (RS, _SR_F, "        resp_mime = None\n"))
B('j17_neg_accept_ignored', ['C17'], 'R17.k', (RS, _SR_A, ""))
B('j17_neg_lookup_by_other_parameter', ['C17'], 'R17.k', (RS, _SR_F, "        resp_mime = self._format_mime_map.get(request.args.get('callback'))\n"))
B('j17_neg_raw_mime_parameter', ['C17'], 'R17.k', (RS, _SR_F, "        resp_mime = self._format_mime_map.get(req_format) or request.args.get('mime')\n"))
B('j17_neg_accept_of_other_header', ['C17'], 'R17.k', (RS, _SR_A, "        if not resp_mime and request.accept_languages:\n            resp_mime = request.accept_languages.best_match(self.mimetypes)\n"))

# R17.l: every JSON body is the renderer's own encoder applied to the endpoint result; JSONP is callback( JSON )
_JR_STREAM = "            json_iter = self.json_encoder.iterencode(context)\n"
_JR_WHOLE = "            json_iter = [self.json_encoder.encode(context)]\n"
_JP_JSON = "        json_iter = self.json_encoder.iterencode(context)\n"
_JP_CHAIN = "        resp_iter = itertools.chain([cb_name, '('], json_iter, [');'])\n"
T('j17_body_encoder_alias', ['C17'],
  (RS, "    def __call__(self, context):\n        if self.streaming:\n" + _JR_STREAM + "        else:\n" + _JR_WHOLE,
       "    def __call__(self, context):\n        encoder = self.json_encoder\n        if self.streaming:\n            json_iter = encoder.iterencode(context)\n"
       "        else:\n            json_iter = [encoder.encode(context)]\n"),
  (RS, _JP_CHAIN, "        resp_iter = itertools.chain((cb_name, '('), json_iter, (');',))\n"))
T('j17_body_bare_encode', ['C17'], (RS, _JR_WHOLE, "            json_iter = self.json_encoder.encode(context)\n"))
T('j17_jsonp_concatenated_prefix', ['C17'], (RS, _JP_CHAIN, "        resp_iter = itertools.chain([cb_name + '('], json_iter, [')'])\n"))
T('j17_jsonp_list_concatenation', ['C17'], (RS, _JP_CHAIN, "        resp_iter = [cb_name, '('] + list(json_iter) + [');']\n"))
B('j17_body_dumps', ['C17'], 'R17.l', (RS, 'import itertools\n', 'import itertools\nimport json\n'),
  (RS, _JR_WHOLE, "            json_iter = [json.dumps(context, indent=2, sort_keys=True)]\n"))
B('j17_body_stream_other_encoder', ['C17'], 'R17.l', (RS, _JR_STREAM, "            json_iter = JSONEncoder(indent=2).iterencode(context)\n"))
B('j17_body_str_of_context', ['C17'], 'R17.l', (RS, _JR_WHOLE, "            json_iter = [self.json_encoder.encode(str(context))]\n"))
B('j17_body_empty_becomes_null', ['C17'], 'R17.l',
  (RS, "    def __call__(self, context):\n        if self.streaming:", "    def __call__(self, context):\n        if not context:\n            context = None\n        if self.streaming:"))
B('j17_body_list_of_stream', ['C17'], 'R17.l', (RS, _JR_WHOLE, "            json_iter = [self.json_encoder.iterencode(context)]\n"))
B('j17_jsonp_no_paren', ['C17'], 'R17.l', (RS, _JP_CHAIN, "        resp_iter = itertools.chain([cb_name], json_iter, [');'])\n"))
B('j17_jsonp_paren_before_callback', ['C17'], 'R17.l', (RS, _JP_CHAIN, "        resp_iter = itertools.chain(['(', cb_name], json_iter, [');'])\n"))
B('j17_jsonp_unterminated', ['C17'], 'R17.l', (RS, _JP_CHAIN, "        resp_iter = itertools.chain([cb_name, '('], json_iter, [';'])\n"))
B('j17_jsonp_repr_body', ['C17'], 'R17.l', (RS, _JP_JSON, "        json_iter = [repr(context)]\n"))
B('j17_jsonp_json_twice', ['C17'], 'R17.l', (RS, _JP_CHAIN, "        resp_iter = itertools.chain([cb_name, '('], json_iter, [','], self.json_encoder.iterencode(context), [');'])\n"))
B('j17_jsonp_without_callback', ['C17'], 'R17.l', (RS, "        if not cb_name:\n            return super(JSONPRender, self).__call__(context)\n", "        if cb_name == 'none':\n            return super(JSONPRender, self).__call__(context)\n"))
B('j17_jsonp_other_parameter', ['C17'], 'R17.l', (RS, "        cb_name = request.args.get(self.qp_name, None)\n", "        cb_name = request.args.get('jsonp', None) or 'callback'\n"))
B('j17_jsonp_plain_gets_request', ['C17'], 'R17.l', (RS, "return super(JSONPRender, self).__call__(context)", "return super(JSONPRender, self).__call__(request)"))
# the dispatch hands on the endpoint result itself; every entry point returns a response on every path
T('j17_dispatch_keyword_context', ['C17'], (RS, "            return self.json_render(context)\n", "            render = self.json_render\n            return render(context=context)\n"))
B('j17_dispatch_list_of_context', ['C17'], 'R17.l', (RS, "            return self.json_render(context)\n", "            return self.json_render(list(context))\n"))
B('j17_dispatch_context_rebound', ['C17'], 'R17.l', (RS, _SR_QP, _SR_QP + "        if isinstance(context, tuple):\n            context = {'items': context}\n"))
B('j17_dispatch_tabular_gets_str', ['C17'], 'R17.l', (RS, "            return self.tabular_render(context, _route)\n", "            return self.tabular_render(str(context), _route)\n"))
B('j17_jsonp_falls_off', ['C17'], 'R17.i',
  (RS, "        if not cb_name:\n            return super(JSONPRender, self).__call__(context)\n", "        if not cb_name:\n            super(JSONPRender, self).__call__(context)\n            return\n"))
B('j17_json_render_no_return', ['C17'], 'R17.i',
  (RS, "        resp.mimetype_params['charset'] = self.encoding\n        return resp\n\n\nclass JSONPRender",
       "        resp.mimetype_params['charset'] = self.encoding\n        if resp.mimetype_params:\n            return resp\n\n\nclass JSONPRender"))
B('j17_tabular_returns_none_for_empty', ['C17'], 'R17.i',
  (TB, "        content_parts = [self._html_wrapper]\n", "        if not context:\n            return None\n        content_parts = [self._html_wrapper]\n"))

# R17.l, stream re-chunkers: a generator the JSON body is passed through hands on the text it is given -- no token overtakes
# buffered ones, none is dropped or repeated (abstract buffer state: empty / holds unemitted tokens / emitted, not cleared)
_GATHER_LOOP = '''        buf.append(token)
        held += len(token)
        if held >= size:
            yield ''.join(buf)
            buf, held = [], 0
'''
_GATHER_TAIL = "    if buf:\n        yield ''.join(buf)\n"


def _gather(loop=_GATHER_LOOP, tail=_GATHER_TAIL, fast=''):
    helper = ("_CHUNK = 4096\n\n\ndef _gather(tokens, size=_CHUNK):\n    buf, held = [], 0\n    for token in tokens:\n" + fast + loop + tail)
    return [(RS, 'class JSONRender(object):\n', helper + '\n\nclass JSONRender(object):\n'),
            (RS, _JR_STREAM, _JR_STREAM + "            json_iter = _gather(json_iter)\n"),
            (RS, _JP_CHAIN, _JP_CHAIN + "        resp_iter = _gather(resp_iter)\n")]


T('j17_rechunk_coalescer', ['C17'], *_gather())
T('j17_rechunk_flush_before_big', ['C17'], *_gather(fast="        if len(token) >= size:\n            if buf:\n                yield ''.join(buf)\n"
                                                          "                buf, held = [], 0\n            yield token\n            continue\n"))
T('j17_rechunk_passthrough', ['C17'], *_gather(loop="        yield token\n", tail=''))
T('j17_rechunk_clear_method', ['C17'], *_gather(loop="        if not token:\n            continue\n        buf.append(token)\n        held += len(token)\n"
                                                     "        if held >= size:\n            yield ''.join(buf)\n            buf.clear()\n            held = 0\n"))
T('j17_body_materialised_stream', ['C17'], (RS, _JR_STREAM, "            json_iter = list(self.json_encoder.iterencode(context))\n"))
B('j17_rechunk_big_overtakes', ['C17'], 'R17.l', *_gather(fast="        if len(token) >= size:\n            yield token\n            continue\n"))
B('j17_rechunk_big_overtakes_else', ['C17'], 'R17.l',
  *_gather(loop="        if len(token) < size:\n            buf.append(token)\n            held += len(token)\n        else:\n            yield token\n"
                "        if held >= size:\n            yield ''.join(buf)\n            buf, held = [], 0\n"))
B('j17_rechunk_no_final_flush', ['C17'], 'R17.l', *_gather(tail=''))
B('j17_rechunk_cleared_without_flush', ['C17'], 'R17.l',
  *_gather(loop="        buf.append(token)\n        held += len(token)\n        if held >= size:\n            buf, held = [], 0\n"))
B('j17_rechunk_flush_without_clear', ['C17'], 'R17.l',
  *_gather(loop="        buf.append(token)\n        held += len(token)\n        if held >= size:\n            yield ''.join(buf)\n            held = 0\n"))
B('j17_rechunk_token_twice', ['C17'], 'R17.l',
  *_gather(fast="        if len(token) >= size:\n            if buf:\n                yield ''.join(buf)\n                buf, held = [], 0\n            yield token\n"))
B('j17_rechunk_short_tokens_dropped', ['C17'], 'R17.l', *_gather(fast="        if len(token) < 2:\n            continue\n"))
# R17.k: the offered mimes read from a cache the renderer fills itself
B('j17_neg_cache_filled_with_html_only', ['C17'], 'R17.k',
  (RS, _BR_CLASS, _BR_CLASS + "    _served_mimes = None\n"),
  (RS, "        resp_mime = self._format_mime_map.get(req_format)\n",
       "        if self._served_mimes is None:\n            self._served_mimes = ('text/html',)\n"
       "        resp_mime = self._format_mime_map.get(req_format)\n"),
  (RS, "            resp_mime = request.accept_mimetypes.best_match(self.mimetypes)\n",
       "            resp_mime = request.accept_mimetypes.best_match(self._served_mimes)\n"))
B('j17_neg_cache_read_unfilled', ['C17'], 'R17.k',
  (RS, _BR_CLASS, _BR_CLASS + "    _served_mimes = None\n"),
  (RS, "            resp_mime = request.accept_mimetypes.best_match(self.mimetypes)\n",
       "            resp_mime = request.accept_mimetypes.best_match(self._served_mimes)\n"
       "            if self._served_mimes is None:\n                self._served_mimes = tuple(self._format_mime_map.values())\n"))

# R17.m: optional attributes of a FunctionBuilder (None unless the callable supplies them -- pinned boltons) are used as
# text on the render paths only behind a presence test
_LBL_GUARD = "    if fb.module:\n        ctx_parts.insert(0, fb.module)\n"
_LBL_RET = "    return '.'.join(ctx_parts), fb.name, fb.get_invocation_str()\n"
T('j17_label_module_is_not_none', ['C17'], (S, _LBL_GUARD, "    if fb.module is not None:\n        ctx_parts.insert(0, fb.module)\n"))
T('j17_label_module_local', ['C17'], (S, _LBL_GUARD, "    module = fb.module\n    if module:\n        ctx_parts.insert(0, module)\n"))
T('j17_label_module_defaulted', ['C17'], (S, _LBL_GUARD, "    ctx_parts.insert(0, fb.module or '<unknown>')\n"))
T('j17_label_module_guard_clause', ['C17'],
  (S, _LBL_GUARD + "\n\n" + _LBL_RET, "    if not fb.module:\n        return '.'.join(ctx_parts), fb.name, fb.get_invocation_str()\n"
      "    return '.'.join([fb.module] + ctx_parts), fb.name, fb.get_invocation_str()\n"))
B('j17_label_module_unguarded_insert', ['C17'], 'R17.m', (S, _LBL_GUARD, "    ctx_parts.insert(0, fb.module)\n"))
B('j17_label_module_in_joined_display', ['C17'], 'R17.m',
  (S, _LBL_GUARD + "\n\n" + _LBL_RET, "    return '.'.join([fb.module] + ctx_parts), fb.name, fb.get_invocation_str()\n"))
B('j17_label_module_concatenated', ['C17'], 'R17.m',
  (S, _LBL_GUARD + "\n\n" + _LBL_RET, "    return fb.module + '.' + '.'.join(ctx_parts), fb.name, fb.get_invocation_str()\n"))
B('j17_label_module_dereferenced', ['C17'], 'R17.m', (S, _LBL_GUARD, "    ctx_parts.insert(0, fb.module.rpartition('.')[2])\n"))
B('j17_label_module_local_unguarded', ['C17'], 'R17.m', (S, _LBL_GUARD, "    module = fb.module\n    if ctx_parts:\n        ctx_parts.insert(0, module)\n"))
B('j17_label_guard_on_other_attribute', ['C17'], 'R17.m', (S, _LBL_GUARD, "    if fb.name:\n        ctx_parts.insert(0, fb.module)\n"))

# R17.n: the text classification is total -- a call that is handed the endpoint's text and can raise for some texts (a
# parser: ValueError *and* RecursionError; a partial codec) lies under a handler for every class it can raise.  The JSON
# guess is followed through try statements (R17.b keeps judging the bracket pairs of every accepting return).
_IMP = 'import itertools\n'


def _gj_parse(handler, call='json.loads(bytestr)', tail='            return False\n', imp='import json\n', pre=''):
    return [(RS, _IMP, _IMP + imp),
            (RS, _GJ, "        if bytestr[:1] + bytestr[-1:] not in (b'{}', b'[]'):\n            return False\n" + pre +
                      "        try:\n            %s\n        except %s:\n%s        return True\n" % (call, handler, tail))]


T('j17_total_parse_contained', ['C17'], *_gj_parse('(ValueError, RecursionError)'))
T('j17_total_parse_except_exception', ['C17'], *_gj_parse('Exception'))
T('j17_total_parse_runtime_error', ['C17'], *_gj_parse('(ValueError, RuntimeError)'))
T('j17_total_parse_named_classes', ['C17'], *_gj_parse('_NOT_JSON', imp='import json\n\n_NOT_JSON = (ValueError, RecursionError)\n'))
T('j17_total_parse_decoder_object', ['C17'], *_gj_parse('(ValueError, RecursionError)', call='_DECODER.decode(bytestr.decode("utf-8", "replace"))',
                                                         imp='import json\n\n_DECODER = json.JSONDecoder()\n'))
T('j17_total_helper_contained_at_call_site', ['C17'],
  *(_gj_parse('(ValueError, RecursionError)', call='parses_as_json(bytestr)') +
    [(RS, 'class JSONRender(object):\n', 'def parses_as_json(data):\n    json.loads(data)\n\n\nclass JSONRender(object):\n')]))
T('j17_total_decode_every_byte', ['C17'],
  (RS, "            if self._guess_json(context):\n", "            head = context[:168].decode('latin-1')\n            if self._guess_json(context):\n"))
T('j17_total_decode_lenient', ['C17'],
  (RS, "            if self._guess_json(context):\n", "            head = context[:168].decode('utf-8', errors='replace')\n            if self._guess_json(context):\n"))
B('j17_total_parse_value_error_only', ['C17'], 'R17.n', *_gj_parse('ValueError'))
B('j17_total_parse_json_decode_error', ['C17'], 'R17.n', *_gj_parse('json.JSONDecodeError'))
B('j17_total_parse_recursion_only', ['C17'], 'R17.n', *_gj_parse('RecursionError'))
B('j17_total_parse_named_classes_narrow', ['C17'], 'R17.n', *_gj_parse('_NOT_JSON', imp='import json\n\n_NOT_JSON = (ValueError, TypeError)\n'))
B('j17_total_parse_handler_raises_again', ['C17'], 'R17.n',
  *_gj_parse('(ValueError, RecursionError)', tail="            raise ValueError('not JSON')\n"))
B('j17_total_literal_eval', ['C17'], 'R17.n',
  *_gj_parse('(ValueError, SyntaxError)', call="ast.literal_eval(bytestr.decode('latin-1'))", imp='import ast\n'))
B('j17_total_helper_call_site_narrow', ['C17'], 'R17.n',
  *(_gj_parse('ValueError', call='parses_as_json(bytestr)') +
    [(RS, 'class JSONRender(object):\n', 'def parses_as_json(data):\n    json.loads(data)\n\n\nclass JSONRender(object):\n')]))
B('j17_total_decode_unguarded', ['C17'], 'R17.n',
  (RS, "            if self._guess_json(context):\n", "            head = context[:168].decode('utf-8')\n            if self._guess_json(context):\n"))
B('j17_total_encode_ascii', ['C17'], 'R17.n', (RS, "            context = context.encode('utf8')\n", "            context = context.encode('ascii')\n"))
B('j17_total_parse_decoder_object_narrow', ['C17'], 'R17.n',
  *_gj_parse('ValueError', call='_DECODER.decode(bytestr.decode("utf-8", "replace"))', imp='import json\n\n_DECODER = json.JSONDecoder()\n'))
# R17.b in the try shapes
B('j17_gj_parse_without_bracket_test', ['C17'], 'R17.b', (RS, _IMP, _IMP + 'import json\n'),
  (RS, _GJ, "        try:\n            json.loads(bytestr)\n        except (ValueError, RecursionError):\n            return False\n        return True\n"))
_GJ_IDX = ("        try:\n            first, last = bytestr[0], bytestr[-1]\n        except IndexError:\n            return %s\n"
           "        return (first, last) in ((123, 125), (91, 93))\n")
T('j17_gj_index_error_handler', ['C17'], (RS, _GJ, _GJ_IDX % 'False'))
B('j17_gj_index_error_means_json', ['C17'], 'R17.b', (RS, _GJ, _GJ_IDX % 'True'))
B('j17_gj_parse_failure_means_json', ['C17'], 'R17.b', (RS, _IMP, _IMP + 'import json\n'),
  (RS, _GJ, "        try:\n            json.loads(bytestr)\n        except (ValueError, RecursionError):\n            return True\n"
            "        return bytestr[:1] + bytestr[-1:] in (b'{}', b'[]')\n"))

# R17.l, kinds of chunks: "+", len(), indexing on the chunks of a JSON / JSONP body only where every operand is a
# materialised sequence of one kind on every path (streaming flag true / false)
_JR_BODY = "        if self.streaming:\n" + _JR_STREAM + "        else:\n" + _JR_WHOLE + "        resp = Response(json_iter, mimetype=\"application/json\")\n"
_JR_HELPER = ("    def _chunks(self, context):\n        if self.streaming:\n            return self.json_encoder.iterencode(context)\n"
              "        return [self.json_encoder.encode(context)]\n\n    def __call__(self, context):\n"
              "        resp = Response(self._chunks(context), mimetype=\"application/json\")\n")
_JR_DEF = "    def __call__(self, context):\n"
_JP_COND = "        json_iter = self.json_encoder.iterencode(context) if self.streaming else [self.json_encoder.encode(context)]\n"
_PLUS = "        resp_iter = [cb_name, '('] + json_iter + [');']\n"
T('j17_kinds_helper_chained', ['C17'], (RS, _JR_DEF + _JR_BODY, _JR_HELPER),
  (RS, _JP_JSON + _JP_CHAIN, "        resp_iter = itertools.chain([cb_name, '('], self._chunks(context), [');'])\n"))
T('j17_kinds_helper_materialised', ['C17'], (RS, _JR_DEF + _JR_BODY, _JR_HELPER),
  (RS, _JP_JSON + _JP_CHAIN, "        resp_iter = [cb_name, '('] + list(self._chunks(context)) + [');']\n"))
T('j17_kinds_same_flag_on_both_sides', ['C17'],
  (RS, _JP_JSON + _JP_CHAIN, _JP_COND + "        if self.streaming:\n    " + _JP_CHAIN + "        else:\n    " + _PLUS))
T('j17_kinds_buffered_jsonp', ['C17'], (RS, _JP_JSON + _JP_CHAIN, "        json_iter = [self.json_encoder.encode(context)]\n" + _PLUS))
T('j17_kinds_len_of_buffered_body', ['C17'],
  (RS, "        resp = Response(json_iter, mimetype=\"application/json\")\n",
       "        resp = Response(json_iter, mimetype=\"application/json\")\n        if not self.streaming:\n"
       "            resp.headers['X-Chunks'] = str(len(json_iter))\n"))
B('j17_kinds_helper_concatenated', ['C17'], 'R17.l', (RS, _JR_DEF + _JR_BODY, _JR_HELPER),
  (RS, _JP_JSON + _JP_CHAIN, "        resp_iter = [cb_name, '('] + self._chunks(context) + [');']\n"))
B('j17_kinds_list_plus_iterencode', ['C17'], 'R17.l', (RS, _JP_CHAIN, _PLUS))
B('j17_kinds_conditional_body_concatenated', ['C17'], 'R17.l', (RS, _JP_JSON + _JP_CHAIN, _JP_COND + _PLUS))
B('j17_kinds_flag_inverted_on_one_side', ['C17'], 'R17.l',
  (RS, _JP_JSON + _JP_CHAIN, _JP_COND + "        if not self.streaming:\n    " + _JP_CHAIN + "        else:\n    " + _PLUS))
B('j17_kinds_tuple_plus_list', ['C17'], 'R17.l',
  (RS, _JP_JSON + _JP_CHAIN, "        json_iter = [self.json_encoder.encode(context)]\n        resp_iter = (cb_name, '(') + json_iter + (');',)\n"))
B('j17_kinds_len_of_stream', ['C17'], 'R17.l',
  (RS, "        resp = Response(json_iter, mimetype=\"application/json\")\n",
       "        resp = Response(json_iter, mimetype=\"application/json\")\n        resp.headers['X-Chunks'] = str(len(json_iter))\n"))
B('j17_kinds_first_chunk_of_stream', ['C17'], 'R17.l',
  (RS, "        resp = Response(json_iter, mimetype=\"application/json\")\n",
       "        resp = Response(json_iter, mimetype=\"application/json\")\n        resp.headers['X-First'] = str(len(json_iter[0]))\n"))
B('j17_kinds_generator_expression_concatenated', ['C17'], 'R17.l',
  (RS, _JP_JSON + _JP_CHAIN, "        json_iter = (chunk for chunk in self.json_encoder.iterencode(context))\n" + _PLUS))
B('j17_kinds_public_helper_concatenated', ['C17'], 'R17.l', (RS, _JR_DEF + _JR_BODY, _JR_HELPER.replace('_chunks', 'chunks')),
  (RS, _JP_JSON + _JP_CHAIN, "        resp_iter = [cb_name, '('] + self.chunks(context) + [');']\n"))
B('j17_kinds_public_helper_flag_inverted', ['C17'], 'R17.l', (RS, _JR_DEF + _JR_BODY, _JR_HELPER.replace('_chunks', 'chunks')),
  (RS, _JP_JSON + _JP_CHAIN, "        if not self.streaming:\n            resp_iter = itertools.chain([cb_name, '('], self.chunks(context), [');'])\n"
                             "        else:\n            resp_iter = [cb_name, '('] + self.chunks(context) + [');']\n"))
# the serialization delegated to a method the front-end does not dissolve: followed through its returns (provenance and kinds)
_JR_PUBLIC = _JR_HELPER.replace('_chunks', 'chunks')
T('j17_kinds_public_helper_chained', ['C17'], (RS, _JR_DEF + _JR_BODY, _JR_PUBLIC),
  (RS, _JP_JSON + _JP_CHAIN, "        resp_iter = itertools.chain([cb_name, '('], self.chunks(context), [');'])\n"))
T('j17_kinds_public_helper_same_flag', ['C17'], (RS, _JR_DEF + _JR_BODY, _JR_PUBLIC),
  (RS, _JP_JSON + _JP_CHAIN, "        if self.streaming:\n            resp_iter = itertools.chain([cb_name, '('], self.chunks(context), [');'])\n"
                             "        else:\n            resp_iter = [cb_name, '('] + self.chunks(context) + [');']\n"))
B('j17_body_public_helper_other_encoder', ['C17'], 'R17.l',
  (RS, _JR_DEF + _JR_BODY, _JR_PUBLIC.replace("return [self.json_encoder.encode(context)]", "return [JSONEncoder().encode(context)]")))
B('j17_body_public_helper_falls_off', ['C17'], 'R17.l',
  (RS, _JR_DEF + _JR_BODY, _JR_PUBLIC.replace("        return [self.json_encoder.encode(context)]\n", "        if context is not None:\n            return [self.json_encoder.encode(context)]\n")))
B('j17_body_public_helper_gets_str', ['C17'], 'R17.l',
  (RS, _JR_DEF + _JR_BODY, _JR_PUBLIC.replace("Response(self.chunks(context)", "Response(self.chunks(str(context))")))
