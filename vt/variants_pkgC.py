"""C05 -- distilled refactorings the rules were taught to read (T) and breaking edits written in the *refactored*
shapes (B), so that accepting a new shape never means accepting a wrong instance of it."""
from .variants import B, T, S, C, R, A, E, ST, CK, STATS, GZ, CC, PF, RS, FL, META, CE

# ---- anchors (text of clastic/route.py) ----------------------------------------------------------------
_SEP = "    sep = '/+'\n    if mode == S_STRICT:\n        sep = '/'\n"
_TAIL = ("    full_pattern = '^'\n    if mode != S_STRICT and not processed[-1]:\n        processed = processed[:-1]\n"
         "    full_pattern += sep.join(processed)\n    if mode != S_STRICT:\n        full_pattern += '/*'\n"
         "    regex = re.compile(full_pattern + '$')\n")
_PARSE = "        parsed = match.groupdict()\n        name, type_name, op = parsed['name'], parsed['type'], parsed['op']\n"
_DEFTYPE = "        if not type_name:\n            type_name = 'unicode'\n"
_TYPELOOK = "            cur_conv = TYPE_CONV_MAP[type_name]\n            cur_patt = TYPE_PATT_MAP[type_name]\n"
_OPLOOK = "            multi = _OP_ARITY_MAP[op]\n            optional = _OP_OPTIONALITY_MAP[op]\n"
_BUILD = ("    if multi:\n        def multi_converter(value):\n            if not value and optional:\n                return []\n"
          "            return [converter(v) for v in value.split('/')[1:]]\n        return multi_converter\n\n"
          "    def single_converter(value):\n        if not value and optional:\n            return None\n"
          "        return converter(value.replace('/', ''))\n    return single_converter\n")
_MATCH = ("        ret = {}\n        match = self.regex.match(path)\n        if not match:\n            return None\n"
          "        groups = match.groupdict()\n        try:\n            for conv_name, conv in self.converters.items():\n"
          "                ret[conv_name] = conv(groups[conv_name])\n        except (KeyError, TypeError, ValueError):\n"
          "            return None\n        return ret\n")
_ARITY = "_OP_ARITY_MAP = {'': False,  # whether or not an op is \"multi\"\n                 '?': False,\n                 ':': False,\n                 '+': True,\n                 '*': True}\n"
_OPTY = "_OP_OPTIONALITY_MAP = {'': False,  # whether or not an op is \"optional\"\n                       '?': True,\n                       ':': False,\n                       '+': False,\n                       '*': True}\n"
_CONVS = ("DEFAULT_CONVS = [('int', int, _INT_PATTERN),\n                 ('float', float, _FLOAT_PATTERN),\n"
          "                 ('str', unicode, _STR_PATTERN),\n                 ('unicode', unicode, _STR_PATTERN)]\n")
_INT = "_INT_PATTERN = r'[+-]?\\ *[0-9]+'\n"
_FLOAT = "_FLOAT_PATTERN = r'[+-]?\\ *(\\d+(\\.\\d*)?|\\.\\d+)([eE][+-]?\\d+)?'\n"
_SEGCALL = "                                            sep=sep,\n"

# ---- replacement shapes -----------------------------------------------------------------------------------
_SEP_NAMED = "    is_strict = (mode == S_STRICT)\n    sep = '/' if is_strict else '/+'\n"
_TAIL_TMPL = ("    if is_strict:\n        full_pattern = '^%s$' % sep.join(processed)\n    else:\n        if not processed[-1]:\n"
              "            processed = processed[:-1]\n        full_pattern = '^%s/*$' % sep.join(processed)\n    regex = re.compile(full_pattern)\n")
_TAIL_TRAILER = ("    if is_strict:\n        trailer = ''\n    else:\n        trailer = '/*'\n        if not processed[-1]:\n"
                 "            processed = processed[:-1]\n    regex = re.compile('^' + sep.join(processed) + trailer + '$')\n")
_TAIL_FORMAT = ("    if mode != S_STRICT and not processed[-1]:\n        processed = processed[:-1]\n"
                "    regex = re.compile('^{0}{1}$'.format(sep.join(processed), '' if mode == S_STRICT else '/*'))\n")
_TAIL_FSTR = ("    tail = '/*'\n    if mode == S_STRICT:\n        tail = ''\n    elif not processed[-1]:\n        processed = processed[:-1]\n"
              "    body = sep.join(processed)\n    regex = re.compile(f'^{body}{tail}$')\n")
_GROUPS = "        name = match.group('name')\n        op = match.group('op')\n        type_name = match.group('type') or 'unicode'\n"
_BUILD_LOOP = ("    if not multi:\n        def single_converter(value):\n            if optional and not value:\n                return None\n"
               "            segment = value.replace('/', '')\n            return converter(segment)\n        return single_converter\n\n"
               "    def multi_converter(value):\n        if optional and not value:\n            return []\n"
               "        raw_segments = value.split('/')[1:]\n        converted = []\n        for raw_segment in raw_segments:\n"
               "            converted.append(converter(raw_segment))\n        return converted\n    return multi_converter\n")
_MATCH_COMP = ("        match = self.regex.match(path)\n        if match is None:\n            return None\n"
               "        captured = match.groupdict()\n        try:\n            return {binding_name: convert(captured[binding_name])\n"
               "                    for binding_name, convert in self.converters.items()}\n        except (ValueError, TypeError, KeyError):\n"
               "            return None\n")
_OP_TABLE = ("_OP_TABLE = (('', False, False),\n             ('?', False, True),\n             (':', False, False),\n"
             "             ('+', True, False),\n             ('*', True, True))\n")

# ---- twins: one per kind of rewrite ---------------------------------------------------------------------------
T('c05t_sep_named_ifexp', ['C05'], (R, _SEP, _SEP_NAMED))
T('c05t_tail_templates', ['C05'], (R, _SEP, _SEP_NAMED), (R, _TAIL, _TAIL_TMPL))
T('c05t_tail_trailer_concat', ['C05'], (R, _SEP, _SEP_NAMED), (R, _TAIL, _TAIL_TRAILER))
T('c05t_tail_format_call', ['C05'], (R, _TAIL, _TAIL_FORMAT))
T('c05t_tail_fstring', ['C05'], (R, _TAIL, _TAIL_FSTR))
T('c05t_group_calls_or_default', ['C05'], (R, _PARSE, _GROUPS), (R, _DEFTYPE, ''))
T('c05t_lookups_as_tuples', ['C05'],
  (R, _TYPELOOK, "            cur_conv, cur_patt = TYPE_CONV_MAP[type_name], TYPE_PATT_MAP[type_name]\n"),
  (R, _OPLOOK, "            multi, optional = _OP_ARITY_MAP[op], _OP_OPTIONALITY_MAP[op]\n"))
T('c05t_converter_loop_guard_swapped', ['C05'], (R, _BUILD, _BUILD_LOOP))
T('c05t_converter_nested_ifs', ['C05'],
  (R, "            if not value and optional:\n                return []\n", "            if optional:\n                if not value:\n                    return []\n"))
T('c05t_converter_list_map', ['C05'],
  (R, "            return [converter(v) for v in value.split('/')[1:]]\n", "            return list(map(converter, value.split('/')[1:]))\n"))
T('c05t_match_path_dict_comprehension', ['C05', 'C08'], (R, _MATCH, _MATCH_COMP))
T('c05t_op_tables_derived', ['C05'],
  (R, _ARITY, _OP_TABLE + "_OP_ARITY_MAP = dict([(_op, _multi) for _op, _multi, _optional in _OP_TABLE])\n"),
  (R, _OPTY, "_OP_OPTIONALITY_MAP = dict([(_op, _optional)\n                            for _op, _multi, _optional in _OP_TABLE])\n"))
T('c05t_op_tables_zip', ['C05'],
  (R, _ARITY, "_OPS = ('', '?', ':', '+', '*')\n_OP_ARITY_MAP = dict(zip(_OPS, (False, False, False, True, True)))\n"),
  (R, _OPTY, "_OP_OPTIONALITY_MAP = dict(zip(_OPS, (False, True, False, False, True)))\n"))
T('c05t_default_convs_generated_rows', ['C05'],
  (R, _CONVS, "_TEXT_TYPE_NAMES = ('str', 'unicode')\nDEFAULT_CONVS = [('int', int, _INT_PATTERN),\n                 ('float', float, _FLOAT_PATTERN)]\n"
              "DEFAULT_CONVS += [(_type_name, unicode, _STR_PATTERN)\n                  for _type_name in _TEXT_TYPE_NAMES]\n"))
T('c05t_patterns_from_pieces', ['C05'],
  (R, _FLOAT, "_SIGN_PATTERN = r'[+-]?\\ *'\n_MANTISSA_PATTERN = r'(\\d+(\\.\\d*)?|\\.\\d+)'\n_EXPONENT_PATTERN = r'([eE][+-]?\\d+)?'\n"
              "_FLOAT_PATTERN = _SIGN_PATTERN + _MANTISSA_PATTERN + _EXPONENT_PATTERN\n"),
  (R, _INT, "_INT_PATTERN = _SIGN_PATTERN + r'[0-9]+'\n"))
T('c05t_type_maps_tuple_assignment', ['C05'], (R, "TYPE_CONV_MAP = {}\nTYPE_PATT_MAP = {}\n", "TYPE_CONV_MAP, TYPE_PATT_MAP = {}, {}\n"))
T('c05t_register_star_row', ['C05'],
  (R, "for name, func, pattern in DEFAULT_CONVS:\n    _register_converter(name, func, pattern)\n", "for _row in DEFAULT_CONVS:\n    _register_converter(*_row)\n"))

# ---- breaking edits in the refactored shapes ---------------------------------------------------------------------
B('c05b_ifexp_separators_swapped', ['C05'], 'R05.d', (R, _SEP, "    is_strict = (mode == S_STRICT)\n    sep = '/+' if is_strict else '/'\n"))
B('c05b_template_tail_in_strict', ['C05'], 'R05.d', (R, _SEP, _SEP_NAMED), (R, _TAIL, _TAIL_TMPL.replace("'^%s$' % sep", "'^%s/*$' % sep")))
B('c05b_template_without_caret', ['C05'], 'R05.d', (R, _SEP, _SEP_NAMED), (R, _TAIL, _TAIL_TMPL.replace("'^%s/*$'", "'%s/*$'")))
B('c05b_template_without_dollar', ['C05'], 'R05.d', (R, _SEP, _SEP_NAMED), (R, _TAIL, _TAIL_TMPL.replace("'^%s$'", "'^%s'")))
B('c05b_trailer_also_in_strict', ['C05'], 'R05.d', (R, _SEP, _SEP_NAMED), (R, _TAIL, _TAIL_TRAILER.replace("        trailer = ''\n", "        trailer = '/*'\n")))
B('c05b_trailer_test_inverted', ['C05'], 'R05.d', (R, _SEP, _SEP_NAMED), (R, _TAIL, _TAIL_TRAILER.replace("    if is_strict:\n        trailer", "    if not is_strict:\n        trailer")))
B('c05b_format_tail_inverted', ['C05'], 'R05.d', (R, _TAIL, _TAIL_FORMAT.replace("'' if mode == S_STRICT else '/*'", "'/*' if mode == S_STRICT else ''")))
B('c05b_fstring_other_separator', ['C05'], 'R05.d', (R, _TAIL, _TAIL_FSTR.replace("body = sep.join(processed)", "body = '/'.join(processed)")))
B('c05b_segment_separator_literal', ['C05'], 'R05.d', (R, _SEGCALL, "                                            sep='/',\n"))
B('c05b_separator_rebound_in_loop', ['C05'], 'R05.d', (R, "        parsed = match.groupdict()\n", "        parsed = match.groupdict()\n        sep = '/'\n"))
B('c05b_groups_crossed', ['C05'], 'R05.e', (R, _PARSE, "        name = match.group('name')\n        op = match.group('type')\n        type_name = match.group('op')\n"))
B('c05b_or_default_int', ['C05'], 'R05.e', (R, _PARSE, _GROUPS.replace("or 'unicode'", "or 'int'")), (R, _DEFTYPE, ''))
B('c05b_op_lookups_crossed_tuple', ['C05'], 'R05.b', (R, _OPLOOK, "            multi, optional = _OP_OPTIONALITY_MAP[op], _OP_ARITY_MAP[op]\n"))
B('c05b_type_lookups_other_key', ['C05'], 'R05.b', (R, _TYPELOOK, "            cur_conv, cur_patt = TYPE_CONV_MAP[type_name], TYPE_PATT_MAP['unicode']\n"))
B('c05b_loop_keeps_first_piece', ['C05'], 'R05.e', (R, _BUILD, _BUILD_LOOP.replace("value.split('/')[1:]", "value.split('/')")))
B('c05b_loop_drops_empty_pieces', ['C05'], 'R05.e',
  (R, _BUILD, _BUILD_LOOP.replace("            converted.append(converter(raw_segment))\n", "            if raw_segment:\n                converted.append(converter(raw_segment))\n")))
B('c05b_loop_swallows_errors', ['C05'], 'R05.e',
  (R, _BUILD, _BUILD_LOOP.replace("            converted.append(converter(raw_segment))\n",
                                  "            try:\n                converted.append(converter(raw_segment))\n            except ValueError:\n                pass\n")))
B('c05b_optional_or_empty', ['C05'], 'R05.e', (R, _BUILD, _BUILD_LOOP.replace("            if optional and not value:\n                return None\n", "            if optional or not value:\n                return None\n")))
B('c05b_temp_not_stripped', ['C05'], 'R05.e', (R, _BUILD, _BUILD_LOOP.replace("segment = value.replace('/', '')", "segment = value.replace('/', '', 0)")))
B('c05b_guard_selects_wrong_converter', ['C05'], 'R05.e', (R, _BUILD, _BUILD_LOOP.replace("    if not multi:\n", "    if multi:\n")))
B('c05b_comprehension_after_try', ['C05', 'C08'], {'C05': 'R05.d', 'C08': 'R08.f'},
  (R, _MATCH, _MATCH_COMP.replace("        try:\n            return {binding_name: convert(captured[binding_name])\n                    for binding_name, convert in self.converters.items()}\n"
                                  "        except (ValueError, TypeError, KeyError):\n            return None\n",
                                  "        try:\n            pairs = self.converters.items()\n        except (ValueError, TypeError, KeyError):\n            return None\n"
                                  "        return {binding_name: convert(captured[binding_name]) for binding_name, convert in pairs}\n")))
B('c05b_derived_tables_crossed', ['C05'], 'R05.b',
  (R, _ARITY, _OP_TABLE + "_OP_ARITY_MAP = dict([(_op, _optional) for _op, _multi, _optional in _OP_TABLE])\n"),
  (R, _OPTY, "_OP_OPTIONALITY_MAP = dict([(_op, _multi) for _op, _multi, _optional in _OP_TABLE])\n"))
B('c05b_derived_table_filtered', ['C05'], 'R05.b',
  (R, _ARITY, _OP_TABLE + "_OP_ARITY_MAP = dict([(_op, _multi) for _op, _multi, _optional in _OP_TABLE])\n"),
  (R, _OPTY, "_OP_OPTIONALITY_MAP = dict([(_op, _optional) for _op, _multi, _optional in _OP_TABLE if _op != ':'])\n"))
B('c05b_generated_rows_wrong_pattern', ['C05'], 'R05.a',
  (R, _CONVS, "DEFAULT_CONVS = [('int', int, _INT_PATTERN),\n                 ('float', float, _FLOAT_PATTERN)]\n"
              "DEFAULT_CONVS += [(_type_name, unicode, _INT_PATTERN) for _type_name in ('str', 'unicode')]\n"))
B('c05b_generated_rows_lose_unicode', ['C05'], 'R05.a',
  (R, _CONVS, "DEFAULT_CONVS = [('int', int, _INT_PATTERN),\n                 ('float', float, _FLOAT_PATTERN)]\n"
              "DEFAULT_CONVS += [(_type_name, unicode, _STR_PATTERN) for _type_name in ('str',)]\n"))
B('c05b_pieces_sign_mandatory', ['C05'], 'R05.a',
  (R, _INT, "_SIGN_PATTERN = r'[+-]\\ *'\n_INT_PATTERN = _SIGN_PATTERN + r'[0-9]+'\n"))
B('c05b_pieces_digits_optional', ['C05'], 'R05.a',
  (R, _INT, "_SIGN_PATTERN = r'[+-]?\\ *'\n_INT_PATTERN = _SIGN_PATTERN + r'[0-9]*'\n"))

# ---- second batch: guards, alias table, join of a literal list, **fields -----------------------------------------
_TYPETRY = ("        try:\n" + _TYPELOOK + "        except KeyError:\n            raise InvalidPattern('unknown type specifier %s'\n"
            "                                 % type_name)\n")
_OPTRY = ("        try:\n" + _OPLOOK + "        except KeyError:\n            _tmpl = 'unknown arity operator %r, expected one of %r'\n"
          "            raise InvalidPattern(_tmpl % (op, _OP_ARITY_MAP.keys()))\n")
_COLON = "        if op == ':':\n            op = ''\n"
_FMT = ("        path_seg_pattern = _SEG_TMPL.format(name=name,\n                                            sep=sep,\n"
        "                                            pattern=cur_patt,\n                                            arity=op)\n")

T('c05t_membership_guards', ['C05'],
  (R, _TYPETRY, "        if type_name not in TYPE_CONV_MAP:\n            raise InvalidPattern('unknown type specifier %s'\n                                 % type_name)\n"
                "        cur_conv = TYPE_CONV_MAP[type_name]\n        cur_patt = TYPE_PATT_MAP[type_name]\n"),
  (R, _OPTRY, "        if op not in _OP_ARITY_MAP:\n            _tmpl = 'unknown arity operator %r, expected one of %r'\n"
              "            raise InvalidPattern(_tmpl % (op, _OP_ARITY_MAP.keys()))\n"
              "        multi = _OP_ARITY_MAP[op]\n        optional = _OP_OPTIONALITY_MAP[op]\n"))
T('c05t_second_lookup_after_try', ['C05'],
  (R, _TYPETRY, "        try:\n            cur_conv = TYPE_CONV_MAP[type_name]\n        except KeyError:\n"
                "            raise InvalidPattern('unknown type specifier %s'\n                                 % type_name)\n"
                "        cur_patt = TYPE_PATT_MAP[type_name]\n"))
T('c05t_colon_alias_table', ['C05'],
  (R, "TYPE_CONV_MAP = {}\n", "_OP_ALIASES = {':': ''}\nTYPE_CONV_MAP = {}\n"), (R, _COLON, "        op = _OP_ALIASES.get(op, op)\n"))
T('c05t_colon_conditional_expression', ['C05'], (R, _COLON, "        op = '' if op == ':' else op\n"))
T('c05t_join_of_literal_list', ['C05'],
  (R, _TAIL, "    if mode != S_STRICT and not processed[-1]:\n        processed = processed[:-1]\n    tail = '/*'\n    if mode == S_STRICT:\n        tail = ''\n"
             "    regex = re.compile(''.join(['^', sep.join(processed), tail, '$']))\n"))
T('c05t_format_fields_dict', ['C05'],
  (R, _FMT, "        fields = dict(name=name, sep=sep, pattern=cur_patt, arity=op)\n        path_seg_pattern = _SEG_TMPL.format(**fields)\n"))
T('c05t_type_is_none_default', ['C05'], (R, _DEFTYPE, "        if type_name is None:\n            type_name = 'unicode'\n"))
T('c05t_groupdict_get', ['C05'], (R, _PARSE, "        parsed = match.groupdict()\n        name = parsed['name']\n        op = parsed.get('op')\n        type_name = parsed.get('type') or 'unicode'\n"),
  (R, _DEFTYPE, ''))
T('c05t_leading_slash_slice', ['C05'], (R, "    if not pattern.startswith('/'):\n", "    if pattern[:1] != '/':\n"))
T('c05t_op_table_from_base', ['C05'],
  (R, _OPTY, "_OP_OPTIONALITY_MAP = dict(_OP_ARITY_MAP, **{'?': True, '+': False})\n"))

B('c05b_lookup_before_the_try', ['C05'], 'R05.c',
  (R, _OPTRY, "        multi = _OP_ARITY_MAP[op]\n        try:\n            optional = _OP_OPTIONALITY_MAP[op]\n        except KeyError:\n"
              "            _tmpl = 'unknown arity operator %r, expected one of %r'\n            raise InvalidPattern(_tmpl % (op, _OP_ARITY_MAP.keys()))\n"))
B('c05b_handler_swallows_unknown_type', ['C05'], 'R05.c',
  (R, _TYPETRY, "        try:\n" + _TYPELOOK + "        except KeyError:\n            cur_conv, cur_patt = unicode, _STR_PATTERN\n"))
B('c05b_guard_tests_other_key', ['C05'], 'R05.c',
  (R, _TYPETRY, "        if name not in TYPE_CONV_MAP:\n            raise InvalidPattern('unknown type specifier %s'\n                                 % type_name)\n"
                "        cur_conv = TYPE_CONV_MAP[type_name]\n        cur_patt = TYPE_PATT_MAP[type_name]\n"))
B('c05b_alias_table_wrong_target', ['C05'], 'R05.b',
  (R, "TYPE_CONV_MAP = {}\n", "_OP_ALIASES = {':': '?'}\nTYPE_CONV_MAP = {}\n"), (R, _COLON, "        op = _OP_ALIASES.get(op, op)\n"))
B('c05b_alias_after_lookups', ['C05'], 'R05.b',
  (R, "TYPE_CONV_MAP = {}\n", "_OP_ALIASES = {':': ''}\nTYPE_CONV_MAP = {}\n"), (R, _COLON, ""),
  (R, "        var_converter_map[name] = build_converter(cur_conv,", "        op = _OP_ALIASES.get(op, op)\n        var_converter_map[name] = build_converter(cur_conv,"))
B('c05b_literal_list_without_dollar', ['C05'], 'R05.d',
  (R, _TAIL, "    if mode != S_STRICT and not processed[-1]:\n        processed = processed[:-1]\n    tail = '/*'\n    if mode == S_STRICT:\n        tail = ''\n"
             "    regex = re.compile(''.join(['^', sep.join(processed), tail]))\n"))
B('c05b_fields_dict_quantifier_literal', ['C05'], 'R05.b',
  (R, _FMT, "        fields = dict(name=name, sep=sep, pattern=cur_patt, arity='')\n        path_seg_pattern = _SEG_TMPL.format(**fields)\n"))
B('c05b_op_table_from_base_wrong', ['C05'], 'R05.b',
  (R, _OPTY, "_OP_OPTIONALITY_MAP = dict(_OP_ARITY_MAP, **{'?': True})\n"))
B('c05b_loop_resets_accumulator', ['C05'], 'R05.e',
  (R, _BUILD, _BUILD_LOOP.replace("        converted = []\n        for raw_segment in raw_segments:\n",
                                  "        for raw_segment in raw_segments:\n            converted = []\n")))
B('c05b_optional_empty_extra_condition', ['C05'], 'R05.e',
  (R, _BUILD, _BUILD_LOOP.replace("            if optional and not value:\n                return None\n", "            if optional and not value and converter is not int:\n                return None\n")))
T('c05t_single_converter_de_morgan', ['C05'],
  (R, "        if not value and optional:\n            return None\n        return converter(value.replace('/', ''))\n",
      "        if value or not optional:\n            return converter(value.replace('/', ''))\n        return None\n"))

# ---- third batch: tuple-valued locals, tuple targets --------------------------------------------------------------
_STORE = ("        var_converter_map[name] = build_converter(cur_conv,\n                                                  multi=multi,\n"
          "                                                  optional=optional)\n" + _FMT)
T('c05t_binding_triple_then_unpacked', ['C05'],
  (R, _PARSE, "        parsed = match.groupdict()\n        binding = (parsed['name'], parsed['type'] or 'unicode', parsed['op'])\n        name, type_name, op = binding\n"),
  (R, _DEFTYPE, ''))
T('c05t_converter_and_segment_in_one_assignment', ['C05'],
  (R, _STORE, "        var_converter_map[name], path_seg_pattern = (build_converter(cur_conv, multi=multi, optional=optional),\n"
              "                                                   _SEG_TMPL.format(name=name, sep=sep, pattern=cur_patt, arity=op))\n"))
T('c05t_inline_lookups_in_calls', ['C05'],
  (R, _OPTRY, "        if op not in _OP_ARITY_MAP:\n            _tmpl = 'unknown arity operator %r, expected one of %r'\n"
              "            raise InvalidPattern(_tmpl % (op, _OP_ARITY_MAP.keys()))\n"),
  (R, "multi=multi,\n                                                  optional=optional)", "multi=_OP_ARITY_MAP[op],\n                                                  optional=_OP_OPTIONALITY_MAP[op])"))
B('c05b_binding_triple_crossed', ['C05'], 'R05.e',
  (R, _PARSE, "        parsed = match.groupdict()\n        binding = (parsed['name'], parsed['op'], parsed['type'])\n        name, type_name, op = binding\n"))
B('c05b_recorded_under_type_name', ['C05'], 'R05',
  (R, _STORE, "        var_converter_map[type_name], path_seg_pattern = (build_converter(cur_conv, multi=multi, optional=optional),\n"
              "                                                        _SEG_TMPL.format(name=name, sep=sep, pattern=cur_patt, arity=op))\n"))
B('c05b_inline_lookups_crossed', ['C05'], 'R05.b',
  (R, _OPTRY, "        if op not in _OP_ARITY_MAP:\n            _tmpl = 'unknown arity operator %r, expected one of %r'\n"
              "            raise InvalidPattern(_tmpl % (op, _OP_ARITY_MAP.keys()))\n"),
  (R, "multi=multi,\n                                                  optional=optional)", "multi=_OP_OPTIONALITY_MAP[op],\n                                                  optional=_OP_ARITY_MAP[op])"))
B('c05b_rows_added_after_registration', ['C05'], 'R05.a',
  (R, _CONVS, "DEFAULT_CONVS = [('int', int, _INT_PATTERN),\n                 ('float', float, _FLOAT_PATTERN)]\n"),
  (R, "for name, func, pattern in DEFAULT_CONVS:\n    _register_converter(name, func, pattern)\n",
      "for name, func, pattern in DEFAULT_CONVS:\n    _register_converter(name, func, pattern)\n"
      "DEFAULT_CONVS += [(_type_name, unicode, _STR_PATTERN) for _type_name in ('str', 'unicode')]\n"))

# ---- fourth batch: role variables that are copies, groups read in one call, the name read off the match in place ----
_DUP = "        if name in var_converter_map:\n"
_VCM = "        var_converter_map[name] = build_converter(cur_conv,"
_CPP = "def _compile_path_pattern(pattern, mode=S_REWRITE):\n"
_RAW_PARSE = "        parsed = match.groupdict()\n        name, raw_type, raw_op = parsed['name'], parsed['type'], parsed['op']\n"
_RAW_COLON = "        if raw_op == ':':\n            raw_op = ''\n        op = raw_op\n"
_RAW_DEFTYPE = "        if not raw_type:\n            raw_type = 'unicode'\n        type_name = raw_type\n"
_PARSE_HELPER = ("def _parse_binding(match):\n    parsed = match.groupdict()\n    name, type_name, op = parsed['name'], parsed['type'], parsed['op']\n"
                 "    if op == ':':\n        op = ''\n    if not type_name:\n        type_name = 'unicode'\n    return name, op, type_name\n\n\n")
_BINDING_HELPER = ("def _compile_binding(match, sep, seen):\n    parsed = match.groupdict()\n"
                   "    name, type_name, op = parsed['name'], parsed['type'], parsed['op']\n"
                   "    if name in seen:\n        raise InvalidPattern('duplicate path binding %s' % name)\n"
                   "    if op == ':':\n        op = ''\n    type_name = type_name or 'unicode'\n"
                   "    try:\n        cur_conv, cur_patt = TYPE_CONV_MAP[type_name], TYPE_PATT_MAP[type_name]\n    except KeyError:\n"
                   "        raise InvalidPattern('unknown type specifier %s' % type_name)\n"
                   "    try:\n        multi, optional = _OP_ARITY_MAP[op], _OP_OPTIONALITY_MAP[op]\n    except KeyError:\n"
                   "        raise InvalidPattern('unknown arity operator %r' % op)\n"
                   "    converter = build_converter(cur_conv, multi=multi, optional=optional)\n"
                   "    fragment = _SEG_TMPL.format(name=name, sep=sep, pattern=cur_patt, arity=op)\n"
                   "    return name, converter, fragment\n\n\n")
_LOOP_BODY = ("        parsed = match.groupdict()\n        name, type_name, op = parsed['name'], parsed['type'], parsed['op']\n"
              "        if name in var_converter_map:\n            raise InvalidPattern('duplicate path binding %s' % name)\n"
              + _COLON + _DEFTYPE + _TYPETRY + _OPTRY + _STORE)
_LOOP_CALL = ("        name, converter, path_seg_pattern = _compile_binding(match, sep, var_converter_map)\n"
              "        var_converter_map[name] = converter\n")

T('c05t_role_variables_are_copies', ['C05'], (R, _PARSE, _RAW_PARSE), (R, _COLON, _RAW_COLON), (R, _DEFTYPE, _RAW_DEFTYPE))
T('c05t_groups_in_one_call', ['C05'], (R, _PARSE, "        name, op, type_name = match.group('name', 'op', 'type')\n"))
T('c05t_type_or_default_of_itself', ['C05'], (R, _DEFTYPE, "        type_name = type_name or 'unicode'\n"))
T('c05t_name_read_off_the_match', ['C05'], (R, _FMT, _FMT.replace("name=name,", "name=parsed['name'],")))
T('c05t_recorded_under_a_copy_of_the_name', ['C05'], (R, _VCM, "        binding_name = name\n" + _VCM.replace("[name]", "[binding_name]")))
T('c05t_parse_binding_helper', ['C05'], (R, _CPP, _PARSE_HELPER + _CPP), (R, _PARSE, "        name, op, type_name = _parse_binding(match)\n"),
  (R, _COLON, ''), (R, _DEFTYPE, ''))
T('c05t_compile_binding_helper', ['C05'], (R, _CPP, _BINDING_HELPER + _CPP), (R, _LOOP_BODY, _LOOP_CALL))

B('c05b_copy_taken_before_colon_normalised', ['C05'], 'R05.b', (R, _PARSE, _RAW_PARSE), (R, _DEFTYPE, _RAW_DEFTYPE),
  (R, _COLON, "        op = raw_op\n        if raw_op == ':':\n            raw_op = ''\n"))
B('c05b_copy_taken_before_default_type', ['C05'], 'R05.e', (R, _PARSE, _RAW_PARSE), (R, _COLON, _RAW_COLON),
  (R, _DEFTYPE, "        type_name = raw_type\n        if not raw_type:\n            raw_type = 'unicode'\n"))
B('c05b_copies_of_crossed_groups', ['C05'], 'R05.e', (R, _PARSE, _RAW_PARSE.replace("name, raw_type, raw_op", "name, raw_op, raw_type")),
  (R, _COLON, _RAW_COLON), (R, _DEFTYPE, _RAW_DEFTYPE))
B('c05b_groups_in_one_call_crossed', ['C05'], 'R05.e', (R, _PARSE, "        name, type_name, op = match.group('name', 'op', 'type')\n"))
B('c05b_groups_in_one_call_name_twice', ['C05'], 'R05.e', (R, _PARSE, "        name, op, type_name = match.group('name', 'op', 'name')\n"))
B('c05b_type_or_default_of_itself_int', ['C05'], 'R05.e', (R, _DEFTYPE, "        type_name = type_name or 'int'\n"))
B('c05b_default_type_after_the_lookups', ['C05'], 'R05.e', (R, _DEFTYPE, ''),
  (R, "        try:\n" + _OPLOOK, "        type_name = type_name or 'unicode'\n        try:\n" + _OPLOOK))
B('c05b_default_type_only_for_some_operators', ['C05'], 'R05.e',
  (R, _DEFTYPE, "        if op:\n            if not type_name:\n                type_name = 'unicode'\n"))
B('c05b_segment_named_after_the_type', ['C05'], 'R05.e', (R, _FMT, _FMT.replace("name=name,", "name=parsed['type'],")))
B('c05b_recorded_under_the_operator_group', ['C05'], 'R05.e', (R, _VCM, _VCM.replace("[name]", "[parsed['op']]")))
B('c05b_recorded_under_a_copy_of_the_type', ['C05'], 'R05.e', (R, _VCM, "        binding_name = type_name\n" + _VCM.replace("[name]", "[binding_name]")))
B('c05b_parse_binding_helper_crossed', ['C05'], 'R05.e', (R, _CPP, _PARSE_HELPER.replace("return name, op, type_name", "return name, type_name, op") + _CPP),
  (R, _PARSE, "        name, op, type_name = _parse_binding(match)\n"), (R, _COLON, ''), (R, _DEFTYPE, ''))
B('c05b_parse_binding_helper_keeps_colon', ['C05'], 'R05.b', (R, _CPP, _PARSE_HELPER.replace("    if op == ':':\n        op = ''\n", "") + _CPP),
  (R, _PARSE, "        name, op, type_name = _parse_binding(match)\n"), (R, _COLON, ''), (R, _DEFTYPE, ''))
B('c05b_parse_binding_helper_without_default', ['C05'], 'R05.e', (R, _CPP, _PARSE_HELPER.replace("    if not type_name:\n        type_name = 'unicode'\n", "") + _CPP),
  (R, _PARSE, "        name, op, type_name = _parse_binding(match)\n"), (R, _COLON, ''), (R, _DEFTYPE, ''))
B('c05b_compile_binding_helper_returns_type_as_name', ['C05'], 'R05.e',
  (R, _CPP, _BINDING_HELPER.replace("return name, converter, fragment", "return type_name, converter, fragment") + _CPP), (R, _LOOP_BODY, _LOOP_CALL))
B('c05b_compile_binding_helper_colon_after_lookups', ['C05'], 'R05.b',
  (R, _CPP, _BINDING_HELPER.replace("    if op == ':':\n        op = ''\n", "").replace("    converter = build_converter(", "    if op == ':':\n        op = ''\n    converter = build_converter(") + _CPP),
  (R, _LOOP_BODY, _LOOP_CALL))

# ---- fifth batch: the two closures as methods of a private callable class (the arity decision taken once in __init__, or at
# every call on a stored flag) ------------------------------------------------------------------------------------------------
_BUILD_DEF = "def build_converter(converter, optional=False, multi=False):\n" + _BUILD
_CLS_INIT = ("class _SegmentConverter(object):\n"
             "    def __init__(self, converter, optional=False, multi=False):\n"
             "        self.converter = converter\n"
             "        self.optional = optional\n"
             "        self._convert = self._many if multi else self._one\n\n")
_CLS_CALL = "    def __call__(self, value):\n        return self._convert(value)\n\n"
_CLS_MANY = ("    def _many(self, value):\n        if not value and self.optional:\n            return []\n"
             "        convert = self.converter\n        return [convert(v) for v in value.split('/')[1:]]\n\n")
_CLS_ONE = ("    def _one(self, value):\n        if not value and self.optional:\n            return None\n"
            "        return self.converter(value.replace('/', ''))\n\n\n")
_CLS_BUILD = "def build_converter(converter, optional=False, multi=False):\n    return _SegmentConverter(converter, optional=optional, multi=multi)\n"
_BUILD_CLASS = _CLS_INIT + _CLS_CALL + _CLS_MANY + _CLS_ONE + _CLS_BUILD
_CLS_INIT_FLAG = _CLS_INIT.replace("        self._convert = self._many if multi else self._one\n", "        self.multi = multi\n")
_CLS_CALL_FLAG = "    def __call__(self, value):\n        if self.multi:\n            return self._many(value)\n        return self._one(value)\n\n"
_BUILD_CLASS_FLAG = _CLS_INIT_FLAG + _CLS_CALL_FLAG + _CLS_MANY + _CLS_ONE + _CLS_BUILD

T('c05t_converter_callable_class', ['C05'], (R, _BUILD_DEF, _BUILD_CLASS))
T('c05t_converter_class_dispatch_per_call', ['C05'], (R, _BUILD_DEF, _BUILD_CLASS_FLAG))
T('c05t_converter_class_positional_named_instance', ['C05'],
  (R, _BUILD_DEF, _BUILD_CLASS.replace("    return _SegmentConverter(converter, optional=optional, multi=multi)\n",
                                       "    segment_converter = _SegmentConverter(converter, optional, multi)\n    return segment_converter\n")))
B('c05b_class_selection_inverted', ['C05'], 'R05.e', (R, _BUILD_DEF, _BUILD_CLASS.replace("self._many if multi else self._one", "self._one if multi else self._many")))
B('c05b_class_optional_marker_lost', ['C05'], 'R05.e', (R, _BUILD_DEF, _BUILD_CLASS.replace("(converter, optional=optional, multi=multi)", "(converter, multi=multi)")))
B('c05b_class_flags_crossed_positionally', ['C05'], 'R05.e', (R, _BUILD_DEF, _BUILD_CLASS.replace("(converter, optional=optional, multi=multi)", "(converter, multi, optional)")))
B('c05b_class_converter_applied_twice', ['C05'], 'R05.e',
  (R, _BUILD_DEF, _BUILD_CLASS.replace("        return self._convert(value)\n", "        return self.converter(self._convert(value))\n")))
B('c05b_class_optional_flag_consumed', ['C05'], 'R05.e',
  (R, _BUILD_DEF, _BUILD_CLASS.replace("        if not value and self.optional:\n            return None\n",
                                       "        if not value and self.optional:\n            self.optional = False\n            return None\n")))
B('c05b_class_flag_kept_on_the_class', ['C05'], 'R05.e', (R, _BUILD_DEF, _BUILD_CLASS.replace("        self.optional = optional\n", "        _SegmentConverter.optional = optional\n")))
B('c05b_class_shared_empty_list', ['C05'], 'R05.e',
  (R, _BUILD_DEF, _BUILD_CLASS.replace("        self.optional = optional\n", "        self.optional = optional\n        self._absent = []\n")
                              .replace("            return []\n", "            return self._absent\n")))
B('c05b_class_per_call_dispatch_on_optional', ['C05'], 'R05.e', (R, _BUILD_DEF, _BUILD_CLASS_FLAG.replace("        if self.multi:\n", "        if self.optional:\n")))
B('c05b_class_per_call_flag_holds_optional', ['C05'], 'R05.e', (R, _BUILD_DEF, _BUILD_CLASS_FLAG.replace("        self.multi = multi\n", "        self.multi = optional\n")))
B('c05b_class_value_stripped_before_dispatch', ['C05'], 'R05.e',
  (R, _BUILD_DEF, _BUILD_CLASS.replace("        return self._convert(value)\n", "        value = value.strip('/')\n        return self._convert(value)\n")))
B('c05b_class_single_guard_wrong_branch', ['C05'], 'R05.e',
  (R, _BUILD_DEF, _BUILD_CLASS.replace("    def _one(self, value):\n        if not value and self.optional:\n", "    def _one(self, value):\n        if not value or self.optional:\n")))

# ---- sixth batch: R05.g (how the joined list is built) and R05.h (what a match returns) ------------------------------------------
_JOIN = "    full_pattern += sep.join(processed)\n"
_TRIM = "    if mode != S_STRICT and not processed[-1]:\n        processed = processed[:-1]\n"
_APPEND = "            processed.append(part)\n"
_GLUE = "        processed[-1] += path_seg_pattern\n"
_MP_STORE = "                ret[conv_name] = conv(groups[conv_name])\n"
_CPP_HEAD = "def _compile_path_pattern(pattern, mode=S_REWRITE):\n    processed = []\n    var_converter_map = {}\n"
_VCM_STORE = "        var_converter_map[name] = build_converter(cur_conv,\n                                                  multi=multi,\n                                                  optional=optional)\n"
_FOR_PART = "    for part in pattern.split('/'):\n"
_MATCH_KEYS = ("        ret = {}\n        match = self.regex.match(path)\n        if not match:\n            return None\n"
               "        try:\n            for conv_name in self.converters:\n                convert = self.converters[conv_name]\n"
               "                ret[conv_name] = convert(match.group(conv_name))\n        except (KeyError, TypeError, ValueError):\n"
               "            return None\n        return ret\n")
_MATCH_PAIRS = ("        match = self.regex.match(path)\n        if not match:\n            return None\n        groups = match.groupdict()\n"
                "        try:\n            converted = dict([(conv_name, conv(groups[conv_name]))\n                              for conv_name, conv in self.converters.items()])\n"
                "        except (KeyError, TypeError, ValueError):\n            return None\n        return converted\n")

T('c05t_trim_by_pop', ['C05'], (R, _TRIM, "    if mode != S_STRICT and not processed[-1]:\n        processed.pop()\n"))
T('c05t_trim_by_del_nested_tests', ['C05'], (R, _TRIM, "    if mode != S_STRICT:\n        if processed[-1] == '':\n            del processed[-1]\n"))
T('c05t_join_of_trimmed_view', ['C05'],
  (R, _TRIM, "    joined = processed\n    if mode != S_STRICT and not processed[-1]:\n        joined = processed[:-1]\n"), (R, _JOIN, "    full_pattern += sep.join(joined)\n"))
T('c05t_join_of_slice_in_place', ['C05'],
  (R, _TRIM + "    full_pattern += sep.join(processed)\n",
      "    if mode != S_STRICT and not processed[-1]:\n        full_pattern += sep.join(processed[:-1])\n    else:\n        full_pattern += sep.join(processed)\n"))
T('c05t_glue_written_out', ['C05'], (R, _GLUE, "        processed[-1] = processed[-1] + path_seg_pattern\n"))
T('c05t_parts_named_first', ['C05'], (R, _FOR_PART, "    parts = pattern.split('/')\n    for part in parts:\n"))
T('c05t_literal_under_is_none', ['C05'], (R, "        if not match:\n            processed.append(part)\n", "        if match is None:\n            processed.append(part)\n"))
T('c05t_containers_by_constructor', ['C05'], (R, _CPP_HEAD, "def _compile_path_pattern(pattern, mode=S_REWRITE):\n    processed = list()\n    var_converter_map = dict()\n"))
T('c05t_match_path_keys_and_group', ['C05', 'C08'], (R, _MATCH, _MATCH_KEYS))
T('c05t_match_path_dict_of_pairs', ['C05', 'C08'], (R, _MATCH, _MATCH_PAIRS))

B('c05b_join_drops_first_element', ['C05'], 'R05.g', (R, _JOIN, "    full_pattern += sep.join(processed[1:])\n"))
B('c05b_literal_part_lowercased', ['C05'], 'R05.g', (R, _APPEND, "            processed.append(part.lower())\n"))
B('c05b_empty_literal_part_skipped', ['C05'], 'R05.g', (R, _APPEND, "            if part:\n                processed.append(part)\n"))
B('c05b_trim_also_in_strict_mode', ['C05'], 'R05.g', (R, _TRIM, "    if not processed[-1]:\n        processed = processed[:-1]\n"))
B('c05b_trim_lost', ['C05'], 'R05.g', (R, _TRIM, ""))
B('c05b_trim_whatever_the_last_element', ['C05'], 'R05.g', (R, _TRIM, "    if mode != S_STRICT:\n        processed = processed[:-1]\n"))
B('c05b_pop_trim_only_in_strict', ['C05'], 'R05.g', (R, _TRIM, "    if mode == S_STRICT and not processed[-1]:\n        processed.pop()\n"))
B('c05b_trim_guard_wrong_branch', ['C05'], 'R05.g', (R, _TRIM, "    if mode != S_STRICT and processed[-1]:\n        processed = processed[:-1]\n"))
B('c05b_trimmed_view_not_joined', ['C05'], 'R05.g',
  (R, _TRIM, "    joined = processed\n    if mode != S_STRICT and not processed[-1]:\n        joined = processed[:-1]\n"))
B('c05b_trim_after_the_join', ['C05'], 'R05.g', (R, _TRIM, ""), (R, _JOIN, _JOIN + _TRIM))
B('c05b_segment_replaces_the_element', ['C05'], 'R05.g', (R, _GLUE, "        processed[-1] = path_seg_pattern\n"))
B('c05b_segment_appended_as_own_element', ['C05'], 'R05.g', (R, _GLUE, "        processed.append(path_seg_pattern)\n"))
B('c05b_glue_written_out_drops_old', ['C05'], 'R05.g', (R, _GLUE, "        processed[-1] = processed[0] + path_seg_pattern\n"))
B('c05b_converter_map_is_a_default_argument', ['C05'], 'R05.g',
  (R, _CPP_HEAD, "def _compile_path_pattern(pattern, mode=S_REWRITE, var_converter_map={}):\n    processed = []\n"))
B('c05b_segment_list_shared_by_all_calls', ['C05'], 'R05.g',
  (R, _CPP_HEAD, "_PROCESSED = []\n\n\ndef _compile_path_pattern(pattern, mode=S_REWRITE):\n    processed = _PROCESSED\n    var_converter_map = {}\n"))
B('c05b_converter_only_for_mandatory_bindings', ['C05'], 'R05.g',
  (R, _VCM_STORE, "        if not optional:\n            var_converter_map[name] = build_converter(cur_conv, multi=multi, optional=optional)\n"))
B('c05b_pattern_split_limited', ['C05'], 'R05.g', (R, _FOR_PART, "    for part in pattern.split('/', 2):\n"))
B('c05b_parts_named_then_filtered', ['C05'], 'R05.g', (R, _FOR_PART, "    parts = [p for p in pattern.split('/') if p]\n    for part in parts:\n"))
B('c05b_duplicate_test_skipped_for_operators', ['C05'], 'R05.g', (R, "        if name in var_converter_map:\n", "        if name in var_converter_map and not op:\n"))
B('c05b_match_path_converts_whole_path', ['C05'], 'R05.h', (R, _MP_STORE, "                ret[conv_name] = conv(path)\n"))
B('c05b_match_path_returns_raw_groups', ['C05'], 'R05.h', (R, "            return None\n        return ret\n", "            return None\n        return groups\n"))
B('c05b_match_path_converts_twice', ['C05'], 'R05.h', (R, _MP_STORE, "                ret[conv_name] = conv(conv(groups[conv_name]))\n"))
B('c05b_match_path_keyed_by_converter', ['C05'], 'R05.h', (R, _MP_STORE, "                ret[conv] = conv(groups[conv_name])\n"))
B('c05b_comprehension_drops_absent_bindings', ['C05'], 'R05.h',
  (R, _MATCH, _MATCH_COMP.replace("self.converters.items()}\n", "self.converters.items() if captured[binding_name]}\n")))
B('c05b_comprehension_reads_other_group', ['C05'], 'R05.h', (R, _MATCH, _MATCH_COMP.replace("convert(captured[binding_name])", "convert(captured.get('name'))")))
B('c05b_keys_loop_wrong_converter', ['C05'], 'R05.h', (R, _MATCH, _MATCH_KEYS.replace("convert = self.converters[conv_name]\n", "convert = self.converters.get(path, unicode)\n")))
B('c05b_pairs_result_not_returned', ['C05'], 'R05.h', (R, _MATCH, _MATCH_PAIRS.replace("        return converted\n", "        return groups\n")))
B('c05b_loop_skips_empty_captures', ['C05'], 'R05.h',
  (R, _MP_STORE, "                if groups[conv_name]:\n                    ret[conv_name] = conv(groups[conv_name])\n"))

# ---- seventh batch: regressions hidden inside the larger restructurings of the third refactoring round ---------------------------
# (the accumulating state of _compile_path_pattern moved into a small builder class; walrus guard + comprehension in match_path)
_CPP_WHOLE = r're:(?s)def _compile_path_pattern\(pattern, mode=S_REWRITE\):.*?    return regex, var_converter_map\n'
_BUILDER_INIT = ("class _PathRegexBuilder(object):\n    def __init__(self, mode):\n        self.strict = (mode == S_STRICT)\n"
                 "        self.sep = '/' if self.strict else '/+'\n        self.segments = []\n        self.converters = {}\n\n")
_BUILDER_ADD = ("    def add_literal(self, part):\n        self.segments.append(part)\n\n"
                "    def add_binding(self, name, op, type_name):\n        if name in self.converters:\n"
                "            raise InvalidPattern('duplicate path binding %s' % name)\n        if op == ':':\n            op = ''\n"
                "        if not type_name:\n            type_name = 'unicode'\n        try:\n            cur_conv = TYPE_CONV_MAP[type_name]\n"
                "            cur_patt = TYPE_PATT_MAP[type_name]\n        except KeyError:\n            raise InvalidPattern('unknown type specifier %s' % type_name)\n"
                "        try:\n            multi = _OP_ARITY_MAP[op]\n            optional = _OP_OPTIONALITY_MAP[op]\n        except KeyError:\n"
                "            raise InvalidPattern('unknown arity operator %r' % op)\n"
                "        self.converters[name] = build_converter(cur_conv, multi=multi, optional=optional)\n"
                "        self.segments[-1] += _SEG_TMPL.format(name=name, sep=self.sep, pattern=cur_patt, arity=op)\n\n")
_BUILDER_BUILD = ("    def build(self):\n        segments, trailer = self.segments, ''\n        if not self.strict:\n            trailer = '/*'\n"
                  "            if not segments[-1]:\n                segments = segments[:-1]\n"
                  "        return re.compile('^' + self.sep.join(segments) + trailer + '$')\n\n\n")
_BUILDER_USE = ("def _compile_path_pattern(pattern, mode=S_REWRITE):\n    if not pattern.startswith('/'):\n"
                "        raise InvalidPattern('URL path patterns must start with a forward slash (got %r)' % pattern)\n"
                "    if '//' in pattern:\n        raise InvalidPattern('URL path patterns must not contain multiple contiguous slashes (got %r)' % pattern)\n"
                "    builder = _PathRegexBuilder(mode)\n    for part in pattern.split('/'):\n        if (match := BINDING.match(part)) is None:\n"
                "            builder.add_literal(part)\n            continue\n        parsed = match.groupdict()\n"
                "        builder.add_binding(name=parsed['name'], op=parsed['op'], type_name=parsed['type'])\n"
                "    return builder.build(), builder.converters\n")
_BUILDER = _BUILDER_INIT + _BUILDER_ADD + _BUILDER_BUILD + _BUILDER_USE
_MATCH_WALRUS = ("        if (match := self.regex.match(path)) is None:\n            return None\n        groups = match.groupdict()\n"
                 "        try:\n            return {conv_name: conv(groups[conv_name])\n                    for conv_name, conv in self.converters.items()}\n"
                 "        except (ValueError, TypeError, KeyError):\n            return None\n")
T('c05t_builder_class', ['C05'], (R, _CPP_WHOLE, _BUILDER))
T('c05t_match_path_walrus_comprehension', ['C05', 'C08'], (R, _MATCH, _MATCH_WALRUS))
B('c05b_builder_trims_in_every_mode', ['C05'], 'R05.g',
  (R, _CPP_WHOLE, _BUILDER.replace("        if not self.strict:\n            trailer = '/*'\n            if not segments[-1]:\n                segments = segments[:-1]\n",
                                   "        if not segments[-1]:\n            segments = segments[:-1]\n        if not self.strict:\n            trailer = '/*'\n")))
B('c05b_builder_separator_flag_inverted', ['C05'], 'R05.d', (R, _CPP_WHOLE, _BUILDER.replace("self.sep = '/' if self.strict else '/+'", "self.sep = '/+' if self.strict else '/'")))
B('c05b_builder_binding_separator_fixed', ['C05'], 'R05.d', (R, _CPP_WHOLE, _BUILDER.replace("sep=self.sep, pattern=cur_patt", "sep='/', pattern=cur_patt")))
B('c05b_builder_colon_not_normalised', ['C05'], 'R05.b', (R, _CPP_WHOLE, _BUILDER.replace("        if op == ':':\n            op = ''\n", "")))
B('c05b_builder_literal_added_stripped', ['C05'], 'R05.g', (R, _CPP_WHOLE, _BUILDER.replace("        self.segments.append(part)\n", "        self.segments.append(part.strip())\n")))
B('c05b_builder_groups_crossed_at_the_call', ['C05'], 'R05.e',
  (R, _CPP_WHOLE, _BUILDER.replace("op=parsed['op'], type_name=parsed['type']", "op=parsed['type'], type_name=parsed['op']")))
B('c05b_walrus_comprehension_typeerror_escapes', ['C05', 'C08'], {'C05': 'R05.d', 'C08': 'R08.f'},
  (R, _MATCH, _MATCH_WALRUS.replace("except (ValueError, TypeError, KeyError):", "except (ValueError, KeyError):")))
B('c05b_walrus_guard_inverted', ['C05'], 'R05.d',
  (R, _MATCH, _MATCH_WALRUS.replace("        if (match := self.regex.match(path)) is None:\n            return None\n",
                                    "        if (match := self.regex.match(path)) is not None:\n            return None\n")))
T('c05t_match_path_pairs_named_then_dict', ['C05', 'C08'],
  (R, _MATCH, _MATCH_PAIRS.replace("            converted = dict([(conv_name, conv(groups[conv_name]))\n                              for conv_name, conv in self.converters.items()])\n",
                                   "            pairs = [(conv_name, conv(groups[conv_name]))\n                     for conv_name, conv in self.converters.items()]\n")
                          .replace("        return converted\n", "        return dict(pairs)\n")))
B('c05b_match_path_pairs_named_swapped', ['C05'], 'R05.h',
  (R, _MATCH, _MATCH_PAIRS.replace("            converted = dict([(conv_name, conv(groups[conv_name]))\n                              for conv_name, conv in self.converters.items()])\n",
                                   "            pairs = [(conv(groups[conv_name]), conv_name)\n                     for conv_name, conv in self.converters.items()]\n")
                          .replace("        return converted\n", "        return dict(pairs)\n")))

# ---- eighth batch: rejections stand under no other condition; lookups written .get(); BINDING grammar; the two type maps ----------
_LEAD = "    if not pattern.startswith('/'):\n"
_DSLASH = "    if '//' in pattern:\n"
_BIND_NAME = "                     r'(?P<name>[A-Za-z_]\\w*)'\n"
_BIND_OP = "                     r'(?P<op>\\W*)'\n"
_BIND_TYPE = "                     r'(?P<type>\\w+)*'\n"
_ROUTE_COMPILE = "        _compile_path_pattern(pattern, self.slash_mode)  # checking pattern\n"
_TYPE_MAPS = "TYPE_CONV_MAP = {}\nTYPE_PATT_MAP = {}\n"
_TYPE_GET = ("        cur_conv = TYPE_CONV_MAP.get(type_name)\n        if cur_conv is None:\n            raise InvalidPattern('unknown type specifier %s'\n"
             "                                 % type_name)\n        cur_patt = TYPE_PATT_MAP[type_name]\n")
T('c05t_type_lookup_get_none_rejected', ['C05'], (R, _TYPETRY, _TYPE_GET))
T('c05t_binding_op_explicit_class', ['C05'], (R, _BIND_OP, "                     r'(?P<op>[^\\w>]*)'\n"))
T('c05t_binding_type_optional_group', ['C05'], (R, _BIND_TYPE, "                     r'(?P<type>\\w+)?'\n"))
T('c05t_route_compile_reraises', ['C05'],
  (R, _ROUTE_COMPILE, "        try:\n            _compile_path_pattern(pattern, self.slash_mode)  # checking pattern\n        except InvalidPattern:\n            raise\n"))
T('c05t_guards_one_after_the_other', ['C05'], (R, _DSLASH, "    elif '//' in pattern:\n"))
B('c05b_double_slash_rejected_only_in_strict', ['C05'], 'R05.c', (R, _DSLASH, "    if '//' in pattern and mode == S_STRICT:\n"))
B('c05b_double_slash_test_nested_under_mode', ['C05'], 'R05.c',
  (R, "    if '//' in pattern:\n        raise InvalidPattern('URL path patterns must not contain multiple'\n                             'contiguous slashes (got %r)' % pattern)\n",
      "    if mode != S_REWRITE:\n        if '//' in pattern:\n            raise InvalidPattern('URL path patterns must not contain multiple'\n"
      "                                 'contiguous slashes (got %r)' % pattern)\n"))
B('c05b_leading_slash_only_for_nonempty', ['C05'], 'R05.c', (R, _LEAD, "    if pattern and not pattern.startswith('/'):\n"))
B('c05b_route_init_swallows_invalid_pattern', ['C05'], 'R05.c',
  (R, _ROUTE_COMPILE, "        try:\n            _compile_path_pattern(pattern, self.slash_mode)  # checking pattern\n        except InvalidPattern:\n            pass\n"))
B('c05b_route_init_logs_value_error', ['C05'], 'R05.c',
  (R, _ROUTE_COMPILE, "        try:\n            _compile_path_pattern(pattern, self.slash_mode)  # checking pattern\n        except ValueError as e:\n            self.pattern_error = e\n"))
B('c05b_unknown_type_falls_back_to_text', ['C05'], 'R05.c',
  (R, _TYPELOOK, "            cur_conv = TYPE_CONV_MAP.get(type_name, unicode)\n            cur_patt = TYPE_PATT_MAP.get(type_name, _STR_PATTERN)\n"))
B('c05b_type_get_none_not_rejected', ['C05'], 'R05.c', (R, _TYPETRY, _TYPE_GET.replace("        if cur_conv is None:\n", "        if cur_conv is None and op:\n")))
B('c05b_type_get_result_tested_inverted', ['C05'], 'R05.c', (R, _TYPETRY, _TYPE_GET.replace("        if cur_conv is None:\n", "        if cur_conv is not None:\n")))
B('c05b_binding_operator_single_choice', ['C05'], 'R05.e', (R, _BIND_OP, "                     r'(?P<op>[:?])?'\n"))
B('c05b_binding_name_without_digits', ['C05'], 'R05.e', (R, _BIND_NAME, "                     r'(?P<name>[A-Za-z_]+)'\n"))
B('c05b_binding_groups_renamed_crossed', ['C05'], 'R05.e',
  (R, _BIND_NAME, "                     r'(?P<type>[A-Za-z_]\\w*)'\n"), (R, _BIND_TYPE, "                     r'(?P<name>\\w+)*'\n"))
B('c05b_binding_operator_eats_anything', ['C05'], 'R05.e', (R, _BIND_OP, "                     r'(?P<op>[^>]*?)'\n"))
B('c05b_type_maps_one_object', ['C05'], 'R05.a', (R, _TYPE_MAPS, "TYPE_CONV_MAP = TYPE_PATT_MAP = {}\n"))
B('c05b_type_maps_second_is_alias', ['C05'], 'R05.a', (R, _TYPE_MAPS, "TYPE_CONV_MAP = {}\nTYPE_PATT_MAP = TYPE_CONV_MAP\n"))

# ---- ninth batch: R05.i -- the inherit_slashes option is read from a declaration wherever it is handed on ---------------------------
_ADD_DEFAULT = "        kwargs.setdefault('inherit_slashes', getattr(rf, 'inherit_slashes', True))\n"
_SUB_DEFAULT = "        kwargs.setdefault('inherit_slashes', self.inherit_slashes)\n"
T('c05t_add_default_named_first', ['C05'], (A, _ADD_DEFAULT, "        inherit = getattr(rf, 'inherit_slashes', True)\n        kwargs.setdefault('inherit_slashes', inherit)\n"))
T('c05t_add_default_attribute_when_present', ['C05'],
  (A, _ADD_DEFAULT, "        if hasattr(rf, 'inherit_slashes'):\n            kwargs.setdefault('inherit_slashes', rf.inherit_slashes)\n"))
T('c05t_subapp_default_by_membership', ['C05'],
  (A, _SUB_DEFAULT, "        if 'inherit_slashes' not in kwargs:\n            kwargs['inherit_slashes'] = self.inherit_slashes\n"))
B('c05b_add_default_literal', ['C05'], 'R05.i', (A, _ADD_DEFAULT, "        kwargs.setdefault('inherit_slashes', True)\n"))
B('c05b_add_forces_literal', ['C05'], 'R05.i', (A, _ADD_DEFAULT, "        kwargs['inherit_slashes'] = True\n"))
B('c05b_add_passes_literal_keyword', ['C05'], 'R05.i',
  (A, _ADD_DEFAULT, ""), (A, "            bound_routes = rf.bind_all(self, **kwargs)\n", "            kwargs.pop('inherit_slashes', None)\n            bound_routes = rf.bind_all(self, inherit_slashes=True, **kwargs)\n"))
B('c05b_add_defaults_from_literal_table', ['C05'], 'R05.i',
  (A, _ADD_DEFAULT, "        kwargs.update(inherit_slashes=kwargs.get('inherit_slashes', True))\n"))
B('c05b_subapp_default_literal', ['C05'], 'R05.i', (A, _SUB_DEFAULT, "        kwargs.setdefault('inherit_slashes', True)\n"))
_ADD_BOTH = "        kwargs.setdefault('rebind_render', getattr(rf, 'rebind_render', True))\n" + _ADD_DEFAULT
_SUB_BOTH = "        kwargs.setdefault('rebind_render', self.rebind_render)\n" + _SUB_DEFAULT
_SUB_LOOP = "            bound_rt = rt.bind(app, **kwargs)\n"
T('c05t_add_defaults_in_a_loop_over_option_names', ['C05'],
  (A, _ADD_BOTH, "        for opt_name in ('rebind_render', 'inherit_slashes'):\n            kwargs.setdefault(opt_name, getattr(rf, opt_name, True))\n"))
T('c05t_add_bound_method_named_first', ['C05'],
  (A, "        if callable(getattr(rf, 'bind_all', None)):\n            bound_routes = rf.bind_all(self, **kwargs)\n",
      "        bind_all = getattr(rf, 'bind_all', None)\n        if callable(bind_all):\n            bound_routes = bind_all(self, **kwargs)\n"))
T('c05t_subapp_defaults_dict_then_update', ['C05'],
  (A, "        kwargs['prefix'] = self.prefix\n" + _SUB_BOTH, "        bind_kwargs = dict(rebind_render=self.rebind_render, inherit_slashes=self.inherit_slashes)\n"
      "        bind_kwargs.update(kwargs)\n        bind_kwargs['prefix'] = self.prefix\n"),
  (A, _SUB_LOOP, "            bound_rt = rt.bind(app, **bind_kwargs)\n"))
B('c05b_add_loop_defaults_literal', ['C05'], 'R05.i',
  (A, _ADD_BOTH, "        for opt_name in ('rebind_render', 'inherit_slashes'):\n            kwargs.setdefault(opt_name, True)\n"))
B('c05b_add_loop_reads_other_attribute', ['C05'], 'R05.i',
  (A, _ADD_BOTH, "        for opt_name in ('rebind_render', 'inherit_slashes'):\n            kwargs.setdefault(opt_name, getattr(rf, 'rebind_render', True))\n"))
B('c05b_subapp_defaults_dict_literal', ['C05'], 'R05.i',
  (A, "        kwargs['prefix'] = self.prefix\n" + _SUB_BOTH, "        bind_kwargs = dict(rebind_render=self.rebind_render, inherit_slashes=True)\n"
      "        bind_kwargs.update(kwargs)\n        bind_kwargs['prefix'] = self.prefix\n"),
  (A, _SUB_LOOP, "            bound_rt = rt.bind(app, **bind_kwargs)\n"))
B('c05b_add_bound_method_literal_default', ['C05'], 'R05.i',
  (A, _ADD_DEFAULT, "        kwargs.setdefault('inherit_slashes', True)\n"),
  (A, "        if callable(getattr(rf, 'bind_all', None)):\n            bound_routes = rf.bind_all(self, **kwargs)\n",
      "        bind_all = getattr(rf, 'bind_all', None)\n        if callable(bind_all):\n            bound_routes = bind_all(self, **kwargs)\n"))

# ---- tenth batch: R05.g -- the joined list built in two stages (a list of fragment lists filled by the loop, every element joined
# once after it); R05.e -- build_converter read in the module it lives in when route.py imports it back ---------------------------------
_SI = 'clastic/sinter.py'
_SINTER_IMPORT = "from .sinter import inject, get_arg_names, get_fb, get_callable_name\n"
_STAGED_HEAD = "def _compile_path_pattern(pattern, mode=S_REWRITE):\n    chunks = []\n    var_converter_map = {}\n"
_STAGED_APPEND = "            chunks.append([part])\n"
_STAGED_GLUE = "        chunks[-1].append(path_seg_pattern)\n"
_STAGED_FLAT = "    processed = [''.join(fragments) for fragments in chunks]\n"


def _staged(head=_STAGED_HEAD, append=_STAGED_APPEND, glue=_STAGED_GLUE, flat=_STAGED_FLAT):
    return [(R, _CPP_HEAD, head), (R, _APPEND, append), (R, _GLUE, glue + flat)]


T('c05t_staged_fragment_lists', ['C05'], *_staged())
T('c05t_staged_fragment_lists_by_map', ['C05'], *_staged(flat="    processed = list(map(''.join, chunks))\n"))
T('c05t_staged_fragment_lists_generator_and_flag', ['C05'],
  *(_staged(flat="    processed = list(''.join(fragments) for fragments in chunks)\n") +
    [(R, _SEP, "    strict = mode == S_STRICT\n    sep = '/' if strict else '/+'\n"),
     (R, _TRIM, "    if not strict and not processed[-1]:\n        processed = processed[:-1]\n")]))
B('c05b_staged_literal_part_lowercased', ['C05'], 'R05.g', *_staged(append="            chunks.append([part.lower()])\n"))
B('c05b_staged_literal_part_with_extra_fragment', ['C05'], 'R05.g', *_staged(append="            chunks.append([part, '/'])\n"))
B('c05b_staged_empty_literal_part_skipped', ['C05'], 'R05.g', *_staged(append="            if part:\n                chunks.append([part])\n"))
B('c05b_staged_segment_opens_its_own_chunk', ['C05'], 'R05.g', *_staged(glue="        chunks.append([path_seg_pattern])\n"))
B('c05b_staged_segment_replaces_the_chunk', ['C05'], 'R05.g', *_staged(glue="        chunks[-1] = [path_seg_pattern]\n"))
B('c05b_staged_segment_added_to_first_chunk', ['C05'], 'R05.g', *_staged(glue="        chunks[0].append(path_seg_pattern)\n"))
B('c05b_staged_fragments_joined_with_slash', ['C05'], 'R05.g', *_staged(flat="    processed = ['/'.join(fragments) for fragments in chunks]\n"))
B('c05b_staged_nonempty_chunks_only', ['C05'], 'R05.g', *_staged(flat="    processed = [''.join(fragments) for fragments in chunks if fragments[0]]\n"))
B('c05b_staged_flattened_before_the_loop', ['C05'], 'R05.g',
  *(_staged(flat="") + [(R, _FOR_PART, _STAGED_FLAT + _FOR_PART)]))
B('c05b_staged_chunks_shared_between_calls', ['C05'], 'R05.g',
  *_staged(head="def _compile_path_pattern(pattern, mode=S_REWRITE, chunks=[]):\n    var_converter_map = {}\n"))
B('c05b_staged_last_chunk_dropped_before_flattening', ['C05'], 'R05.g', *_staged(flat="    chunks.pop()\n" + _STAGED_FLAT))
B('c05b_staged_trim_also_in_strict_mode', ['C05'], 'R05.g',
  *(_staged() + [(R, _TRIM, "    if not processed[-1]:\n        processed = processed[:-1]\n")]))
B('c05b_staged_extra_element_after_flattening', ['C05'], 'R05.g', *_staged(flat=_STAGED_FLAT + "    processed.append('')\n"))

_MOVED = [(R, _BUILD_DEF, ""), (R, _SINTER_IMPORT, _SINTER_IMPORT + "from .sinter import build_converter\n")]
T('c05t_build_converter_moved_to_another_module', ['C05'], *(_MOVED + [(_SI, 're:\\Z', "\n\n" + _BUILD_DEF)]))
T('c05t_converter_class_moved_to_another_module', ['C05'], *(_MOVED + [(_SI, 're:\\Z', "\n\n" + _BUILD_CLASS)]))
B('c05b_moved_single_converter_keeps_separator', ['C05'], 'R05.e',
  *(_MOVED + [(_SI, 're:\\Z', "\n\n" + _BUILD_DEF.replace("converter(value.replace('/', ''))", "converter(value)"))]))
B('c05b_moved_multi_converter_keeps_leading_empty', ['C05'], 'R05.e',
  *(_MOVED + [(_SI, 're:\\Z', "\n\n" + _BUILD_DEF.replace("value.split('/')[1:]", "value.split('/')"))]))
B('c05b_moved_selection_inverted', ['C05'], 'R05.e',
  *(_MOVED + [(_SI, 're:\\Z', "\n\n" + _BUILD_DEF.replace("    if multi:\n", "    if not multi:\n"))]))
B('c05b_moved_class_single_guard_wrong_branch', ['C05'], 'R05.e',
  *(_MOVED + [(_SI, 're:\\Z', "\n\n" + _BUILD_CLASS.replace("    def _one(self, value):\n        if not value and self.optional:\n",
                                                             "    def _one(self, value):\n        if not value or self.optional:\n"))]))

# ---- round g: R05.i -- the mode the pattern is compiled for is the mode declared for *this* binding (application with inherit_slashes,
# ---- else the route being bound, whose pattern is compiled; never the original unbound route / a chain / a constant) ----------------
_BR_MODE = "        self.slash_mode = app.slash_mode if inherit_slashes else route.slash_mode\n"
_BR_COMPILE = ("        self.regex, self.converters = _compile_path_pattern(self.pattern,\n"
               "                                                            self.slash_mode)\n")
B('g5_b_mode_from_original_unbound_route', ['C05'], 'R05.i', (R, _BR_MODE, _BR_MODE.replace("else route.slash_mode", "else unbound_route.slash_mode")))
B('g5_b_mode_from_stored_unbound_route', ['C05'], 'R05.i', (R, _BR_MODE, _BR_MODE.replace("else route.slash_mode", "else self.unbound_route.slash_mode")))
B('g5_b_mode_through_attribute_chain', ['C05'], 'R05.i',
  (R, _BR_MODE, "        if inherit_slashes:\n            self.slash_mode = app.slash_mode\n        else:\n"
                "            self.slash_mode = getattr(route, 'unbound_route', route).slash_mode\n"))
B('g5_b_mode_source_named_first_wrong_object', ['C05'], 'R05.i',
  (R, _BR_MODE, "        mode_source = app if inherit_slashes else unbound_route\n        self.slash_mode = mode_source.slash_mode\n"))
B('g5_b_mode_constant_when_not_inherited', ['C05'], 'R05.i', (R, _BR_MODE, _BR_MODE.replace("else route.slash_mode", "else S_REDIRECT")))
B('g5_b_mode_compiled_differs_from_stored', ['C05'], 'R05.i',
  (R, _BR_COMPILE, "        compile_mode = app.slash_mode if inherit_slashes else unbound_route.slash_mode\n"
                   "        self.regex, self.converters = _compile_path_pattern(self.pattern, compile_mode)\n"))
B('g5_b_mode_arms_swapped', ['C05'], 'R05.i', (R, _BR_MODE, "        self.slash_mode = route.slash_mode if inherit_slashes else app.slash_mode\n"))
B('g5_b_mode_ignores_option', ['C05'], 'R05.i', (R, _BR_MODE, "        self.slash_mode = app.slash_mode\n"))
T('g5_t_mode_arms_written_out_inverted', ['C05'],
  (R, _BR_MODE, "        if not inherit_slashes:\n            self.slash_mode = route.slash_mode\n        else:\n            self.slash_mode = app.slash_mode\n"))
T('g5_t_mode_source_named_first', ['C05'],
  (R, _BR_MODE, "        mode_source = app if inherit_slashes else route\n        self.slash_mode = mode_source.slash_mode\n"))
T('g5_t_mode_named_then_stored_and_compiled', ['C05'],
  (R, _BR_MODE, "        slash_mode = app.slash_mode if inherit_slashes else route.slash_mode\n        self.slash_mode = slash_mode\n"),
  (R, _BR_COMPILE, "        self.regex, self.converters = _compile_path_pattern(self.pattern, slash_mode)\n"))
T('g5_t_mode_keyword_arguments', ['C05'],
  (R, _BR_COMPILE, "        self.regex, self.converters = _compile_path_pattern(pattern=self.pattern, mode=self.slash_mode)\n"))
T('g5_t_mode_default_then_override', ['C05'],
  (R, _BR_MODE, "        self.slash_mode = route.slash_mode\n        if inherit_slashes:\n            self.slash_mode = app.slash_mode\n"))

# ---- seventh pass (round x): per-table membership disjunctions; the binding parser in a new private module ---------------------------------
_X5_TYPEGUARD = ("        if type_name not in TYPE_CONV_MAP or type_name not in TYPE_PATT_MAP:\n"
                 "            raise InvalidPattern('unknown type specifier %s'\n                                 % type_name)\n"
                 "        cur_conv = TYPE_CONV_MAP[type_name]\n        cur_patt = TYPE_PATT_MAP[type_name]\n")
_X5_OPGUARD = ("        if op not in _OP_ARITY_MAP or op not in _OP_OPTIONALITY_MAP:\n            _tmpl = 'unknown arity operator %r, expected one of %r'\n"
               "            raise InvalidPattern(_tmpl % (op, _OP_ARITY_MAP.keys()))\n"
               "        multi = _OP_ARITY_MAP[op]\n        optional = _OP_OPTIONALITY_MAP[op]\n")
T('x5_t_membership_per_table_disjunction', ['C05'], (R, _TYPETRY, _X5_TYPEGUARD), (R, _OPTRY, _X5_OPGUARD))
T('x5_t_membership_negated_conjunction', ['C05'],
  (R, _TYPETRY, _X5_TYPEGUARD.replace("type_name not in TYPE_CONV_MAP or type_name not in TYPE_PATT_MAP", "not (type_name in TYPE_CONV_MAP and type_name in TYPE_PATT_MAP)")))
B('x5_b_membership_disjunction_other_key', ['C05'], 'R05.c',
  (R, _TYPETRY, _X5_TYPEGUARD.replace("if type_name not in TYPE_CONV_MAP or", "if name not in TYPE_CONV_MAP or")))
B('x5_b_membership_disjunction_rejects_known_ops', ['C05'], 'R05.c',
  (R, _OPTRY, _X5_OPGUARD.replace("or op not in _OP_OPTIONALITY_MAP", "or op in _OP_OPTIONALITY_MAP")))

_X5_BINDING = ("BINDING = re.compile(r'<'\n                     r'(?P<name>[A-Za-z_]\\w*)'\n                     r'(?P<op>\\W*)'\n"
               "                     r'(?P<type>\\w+)*'\n                     r'>')\n")
_X5_LOOPHEAD = "        match = BINDING.match(part)\n        if not match:\n            processed.append(part)\n            continue\n" + _PARSE
_X5_LOOPHEAD_NEW = ("        binding = parse_part(part)\n        if binding is None:\n            processed.append(part)\n            continue\n"
                    "        name, op, type_name = binding\n")
_X5_PATHOPS = ("import re\n\n\n" + _X5_BINDING + "\n\ndef parse_part(part):\n    match = BINDING.match(part)\n    if match is None:\n        return None\n"
               "    return match.group('name', 'op', 'type')\n")
_X5_MOVE = [('clastic/_bindparse.py', '__NEW__', _X5_PATHOPS), (R, _X5_BINDING, "from ._bindparse import BINDING, parse_part\n"),
            (R, _X5_LOOPHEAD, _X5_LOOPHEAD_NEW)]
T('x5_t_binding_parser_in_private_module', ['C05'], *_X5_MOVE)
B('x5_b_binding_parser_groups_swapped', ['C05'], 'R05.e',
  ('clastic/_bindparse.py', '__NEW__', _X5_PATHOPS.replace("match.group('name', 'op', 'type')", "match.group('name', 'type', 'op')")), *_X5_MOVE[1:])
B('x5_b_binding_parser_some_bindings_literal', ['C05'], 'R05.g',
  ('clastic/_bindparse.py', '__NEW__', _X5_PATHOPS.replace("if match is None:", "if match is None or match.group('op') == '!':")), *_X5_MOVE[1:])
B('x5_b_binding_parser_result_test_inverted', ['C05'], 'R05.g',
  _X5_MOVE[0], _X5_MOVE[1], (R, _X5_LOOPHEAD, _X5_LOOPHEAD_NEW.replace("if binding is None:", "if binding is not None:")))
