"""E2 -- class-hierarchy call graph over the analysed package.

Resolution order for a call ``recv.m(...)``:
  * ``self.m`` / ``cls.m``: MRO of the enclosing class plus overriding subclasses (CHA);
  * ``super(...).m``: MRO after the enclosing class;
  * receiver *role table* (variable / attribute name -> class), filled from the repository;
  * imported module attribute;
  * otherwise by-name CHA over every analysed class that defines ``m`` -- except for method
    names that are overwhelmingly container/str methods (table ``GENERIC_METHODS``), which
    are kept as external nodes.
Function references passed as values (``inject(self.f, ...)``, ``key=f``) produce ``ref`` edges;
attribute loads that name a property of an analysed class produce ``prop`` edges.
"""
import ast

from .astutil import dotted, walk_body, call_tail
from .loader import ClassInfo, FuncInfo

# receiver name (variable or last attribute) -> (module, class)
ROLE_TABLE = {
    'route': [('clastic.route', 'BoundRoute'), ('clastic.route', 'Route')],
    'rt': [('clastic.route', 'BoundRoute'), ('clastic.route', 'Route')],
    'br': [('clastic.route', 'BoundRoute')],
    'bound_rt': [('clastic.route', 'BoundRoute')],
    'broute': [('clastic.route', 'BoundRoute')],
    '_route': [('clastic.route', 'BoundRoute')],
    'source_route': [('clastic.route', 'BoundRoute')],
    '_null_route': [('clastic.route', 'BoundRoute')],
    'unbound_route': [('clastic.route', 'Route')],
    'app': [('clastic.application', 'Application')],
    '_application': [('clastic.application', 'Application')],
    'application': [('clastic.application', 'Application')],
    'dispatch_state': [('clastic.application', 'DispatchState')],
    '_dispatch_state': [('clastic.application', 'DispatchState')],
    'err_handler': [('clastic.errors', 'ErrorHandler')],
    'error_handler': [('clastic.errors', 'ErrorHandler')],
    'eh': [('clastic.errors', 'ErrorHandler')],
    'mw': [('clastic.middleware.core', 'Middleware')],
    '_error': [('clastic.errors', 'HTTPException')],
    'rf': [('clastic.route', 'Route'), ('clastic.application', 'SubApplication')],
    'stats_mw': [('clastic.middleware.stats', 'StatsMiddleware')],
    'hits': [('clastic.middleware.stats', 'RouteStatReservoir')],
}

GENERIC_METHODS = {
    'append', 'extend', 'insert', 'pop', 'remove', 'sort', 'reverse', 'clear', 'copy', 'count', 'index',
    'get', 'items', 'keys', 'values', 'update', 'setdefault', 'popitem', 'discard', 'union',
    'difference', 'intersection', 'join', 'split', 'strip', 'rstrip', 'lstrip', 'startswith', 'endswith',
    'format', 'replace', 'encode', 'decode', 'upper', 'lower', 'partition', 'rpartition', 'splitlines',
    'read', 'write', 'close', 'seek', 'tell', 'match', 'groupdict', 'group', 'search', 'sub',
    'isoformat', 'total_seconds', 'hexdigest', 'digest', 'best_match', 'parse_known_args', 'add_argument',
    'render', 'load', 'to_dict', 'describe', 'translate', 'find', 'title', 'isdigit', 'zfill',
}
# ``add`` is both set.add and Application.add / Reservoir.add: resolved by role only.
GENERIC_METHODS |= {'add'}


class Edge(object):
    __slots__ = ('caller', 'callee', 'kind', 'node')

    def __init__(self, caller, callee, kind, node):
        self.caller, self.callee, self.kind, self.node = caller, callee, kind, node

    def __repr__(self):
        tgt = self.callee.key if isinstance(self.callee, FuncInfo) else self.callee
        return '<%s -%s-> %s>' % (self.caller.key, self.kind, tgt)


class CallGraph(object):
    def __init__(self, repo, mods=None):
        self.repo = repo
        self.mods = mods or repo.all_internal_modules()
        self.funcs = []
        for m in self.mods:
            self.funcs.extend(m.functions.values())
        self.methods_by_name = {}
        self.props_by_name = {}
        self.classes = []
        for m in self.mods:
            for c in m.classes.values():
                self.classes.append(c)
                for name, fi in c.methods.items():
                    self.methods_by_name.setdefault(name, []).append(fi)
                    if any(dotted(d) in ('property', 'cached_property') or
                           (isinstance(d, ast.Attribute) and d.attr in ('setter', 'getter'))
                           for d in fi.node.decorator_list):
                        self.props_by_name.setdefault(name, []).append(fi)
        self.out = {}
        self.into = {}
        for f in self.funcs:
            self.out[f] = []
        for f in self.funcs:
            self._scan(f)

    # -- helpers -----------------------------------------------------------
    def _add(self, f, callee, kind, node):
        e = Edge(f, callee, kind, node)
        self.out[f].append(e)
        if isinstance(callee, FuncInfo):
            self.into.setdefault(callee, []).append(e)

    def _role_classes(self, name):
        out = []
        for modname, cname in ROLE_TABLE.get(name, []):
            m = self.repo.try_mod(modname)
            if m is not None and cname in m.classes:
                out.append(m.classes[cname])
        return out

    def _cha_methods(self, ci, name):
        """method ``name`` as seen from static class ci: MRO definition + overriding subclasses."""
        out = []
        fi = self.repo.find_method(ci, name)
        if fi is not None:
            out.append(fi)
        for c in self.classes:
            if c is not ci and name in c.methods and ci in self.repo.mro(c):
                if c.methods[name] not in out:
                    out.append(c.methods[name])
        return out

    def _class_init(self, ci):
        out = []
        for nm in ('__init__', '__new__'):
            fi = self.repo.find_method(ci, nm)
            if fi is not None:
                out.append(fi)
        return out

    def enclosing_class(self, f):
        """ClassInfo whose method (possibly via nesting) f is."""
        if f.cls is not None:
            return f.cls
        parts = f.qualname.split('.')
        for i in range(len(parts) - 1, 0, -1):
            q = '.'.join(parts[:i])
            if q in f.mod.classes:
                return f.mod.classes[q]
        return None

    def _resolve_name(self, f, name):
        """FuncInfo targets for a bare-name callee / reference."""
        key = (f, name)
        busy = self.__dict__.setdefault('_busy_names', set())
        if key in busy:
            return [], 'local'      # cyclic local aliases (a = b; b = a)
        busy.add(key)
        try:
            return self._resolve_name_inner(f, name)
        finally:
            busy.discard(key)

    def _resolve_name_inner(self, f, name):
        # nested function of this function or of an enclosing function
        parts = f.qualname.split('.')
        for i in range(len(parts), 0, -1):
            q = '.'.join(parts[:i]) + '.' + name
            if q in f.mod.functions:
                return [f.mod.functions[q]], 'call'
        # local alias:  bfr = build_file_response
        from .astutil import assigned_value
        if not isinstance(f.node, ast.Lambda):
            vals = assigned_value(f.node, name)
            if vals:
                out = []
                for st, v, idx in vals:
                    if idx is None and isinstance(v, (ast.Name, ast.Attribute)):
                        tg, _ = self._resolve_expr(f, v)
                        out.extend(tg)
                if out:
                    return out, 'call'
                return [], 'local'
            if name in f.params():
                return [], 'param'
        kind, m, obj = self.repo.resolve(f.mod, name)
        if kind == 'func':
            return [obj], 'call'
        if kind == 'class':
            return self._class_init(obj), 'new'
        if kind == 'value':
            # module-level alias to a function / instance of a class with __call__
            out = []
            for v in obj:
                if isinstance(v, ast.Call) and isinstance(v.func, ast.Name):
                    k2, m2, o2 = self.repo.resolve(m, v.func.id)
                    if k2 == 'class':
                        c = self.repo.find_method(o2, '__call__')
                        if c is not None:
                            out.append(c)
            return out, 'instance-call'
        if kind == 'external':
            return [obj], 'external'
        return [], 'unknown'

    def _resolve_expr(self, f, expr):
        """Targets for a callee expression (Name / Attribute); returns (targets, kind)."""
        if isinstance(expr, ast.Name):
            return self._resolve_name(f, expr.id)
        if not isinstance(expr, ast.Attribute):
            return [], 'unknown'
        name = expr.attr
        recv = expr.value
        ci = self.enclosing_class(f)
        if isinstance(recv, ast.Name) and recv.id in ('self', 'cls') and ci is not None:
            tg = self._cha_methods(ci, name)
            if tg:
                return tg, 'self'
            # attribute holding a callable (self._execute, self.render, ...)
            return [], 'self-attr'
        if isinstance(recv, ast.Call) and isinstance(recv.func, ast.Name) and recv.func.id == 'super' and ci is not None:
            mro = self.repo.mro(ci)
            for c in mro[1:]:
                if isinstance(c, ClassInfo) and name in c.methods:
                    return [c.methods[name]], 'super'
            return ['super().%s' % name], 'external'
        # module attribute
        if isinstance(recv, ast.Name):
            kind, m, obj = self.repo.resolve(f.mod, recv.id)
            if kind == 'module':
                if m is not None and not m.external:
                    k2, m2, o2 = self.repo.resolve(m, name)
                    if k2 == 'func':
                        return [o2], 'call'
                    if k2 == 'class':
                        return self._class_init(o2), 'new'
                return ['%s.%s' % (obj, name)], 'external'
            if kind == 'class':
                fi = self.repo.find_method(obj, name)
                return ([fi] if fi else []), 'classattr'
        # role table on the receiver's last name
        rname = recv.id if isinstance(recv, ast.Name) else (recv.attr if isinstance(recv, ast.Attribute) else None)
        if rname is not None:
            roles = self._role_classes(rname)
            if roles:
                out = []
                for rc in roles:
                    for fi in self._cha_methods(rc, name):
                        if fi not in out:
                            out.append(fi)
                return out, 'role'
        if name in GENERIC_METHODS:
            return ['.%s' % name], 'external'
        tg = list(self.methods_by_name.get(name, []))
        if tg:
            return tg, 'cha'
        return ['.%s' % name], 'external'

    # -- scanning ----------------------------------------------------------
    def _scan(self, f):
        body_nodes = list(walk_body(f.node)) if not isinstance(f.node, ast.Lambda) else list(ast.walk(f.node.body))
        call_funcs = set()
        for n in body_nodes:
            if isinstance(n, ast.Call):
                call_funcs.add(id(n.func))
                tg, kind = self._resolve_expr(f, n.func)
                for t in tg:
                    self._add(f, t, kind, n)
                if not tg:
                    self._add(f, dotted(n.func) or '<expr>', kind, n)
                # function-valued arguments
                for a in list(n.args) + [k.value for k in n.keywords]:
                    if isinstance(a, (ast.Name, ast.Attribute)):
                        rt, rk = self._resolve_expr(f, a)
                        if rk in ('call', 'self', 'role', 'super', 'classattr'):
                            for t in rt:
                                if isinstance(t, FuncInfo):
                                    self._add(f, t, 'ref', n)
        for n in body_nodes:
            if isinstance(n, ast.Attribute) and isinstance(n.ctx, ast.Load) and id(n) not in call_funcs:
                if n.attr in self.props_by_name:
                    recv = n.value
                    ci = self.enclosing_class(f)
                    if isinstance(recv, ast.Name) and recv.id == 'self' and ci is not None:
                        tg = [t for t in self._cha_methods(ci, n.attr) if t in self.props_by_name[n.attr]]
                    else:
                        rname = recv.id if isinstance(recv, ast.Name) else (recv.attr if isinstance(recv, ast.Attribute) else None)
                        roles = self._role_classes(rname) if rname else []
                        if roles:
                            tg = []
                            for rc in roles:
                                tg += [t for t in self._cha_methods(rc, n.attr) if t in self.props_by_name[n.attr]]
                        else:
                            tg = self.props_by_name[n.attr]
                    for t in tg:
                        self._add(f, t, 'prop', n)

    # -- queries -----------------------------------------------------------
    def callees(self, f, kinds=None):
        return [e for e in self.out.get(f, []) if kinds is None or e.kind in kinds]

    def reachable(self, roots, stop=None, kinds=None):
        """{FuncInfo: path of edges from a root}."""
        seen = {}
        todo = []
        for r in roots:
            seen[r] = []
            todo.append(r)
        while todo:
            f = todo.pop(0)
            for e in self.out.get(f, []):
                if not isinstance(e.callee, FuncInfo):
                    continue
                if kinds is not None and e.kind not in kinds:
                    continue
                if stop is not None and stop(e):
                    continue
                if e.callee not in seen:
                    seen[e.callee] = seen[f] + [e]
                    todo.append(e.callee)
        return seen

    def callers(self, f):
        return self.into.get(f, [])


def never_referenced(repo, fi):
    """A private function whose name occurs nowhere in the analysed tree except in its own ``def``: nothing can call
    it (what is left of a helper after the front-end dissolved it into its callers)."""
    name = fi.name
    if not name.startswith('_') or (name.startswith('__') and name.endswith('__')):
        return False
    for m in repo.all_internal_modules():
        for n in ast.walk(m.tree):
            if isinstance(n, ast.Name) and n.id == name:
                return False
            if isinstance(n, ast.Attribute) and n.attr == name:
                return False
            if isinstance(n, ast.Constant) and isinstance(n.value, str) and name in n.value:
                return False
            if isinstance(n, ast.alias) and name in (n.name, n.asname):
                return False
            if isinstance(n, ast.keyword) and n.arg == name:
                return False
    return True
