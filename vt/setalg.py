"""E5a -- set algebra over symbolic atoms.

A set-valued expression of the analysed source is evaluated to its exact meaning as a Boolean
function of k membership atoms: the value is the set of *minterms* (one per valuation of the
atoms) it contains, encoded as an int bitmask over the 2^k minterms.  Two expressions are
equivalent for all inputs iff their masks are equal (atoms are in general position), so the
comparison with the property's formula is insensitive to algebraic rewrites (``a - b`` vs
``a.difference(b)``, reordering, renaming) and sensitive to every inequivalent edit.

Python's *object* semantics of sets are modelled too: a name bound with ``a = b`` aliases the same
set object, and the in-place operations (``|=``, ``-=``, ``&=``, ``.update``, ``.add``, ...) mutate
that object for every alias, while ``set(b)``, ``a | b`` etc. allocate a new one.

Nothing is executed: this is an abstract interpreter over a finite domain with explicit transfer
functions; syntax outside the modelled subset raises ``Unmodelled`` (=> ANALYSIS-ERROR).
"""
import ast

from .core import AnalysisError, norm


class Unmodelled(AnalysisError):
    pass


class Opaque(object):
    """A non-set value we carry around (function builder, list of functions...)."""

    def __init__(self, expr, tag=None):
        self.expr, self.tag = expr, tag

    def __repr__(self):
        return '<Opaque %s %s>' % (self.tag or '', norm(self.expr)[:40])


class SV(object):
    """A mutable set *object* of the analysed program; ``m`` is its current mask."""
    __slots__ = ('m',)

    def __init__(self, m):
        self.m = m

    def __repr__(self):
        return '<SV %x>' % self.m


class Universe(object):
    def __init__(self, atoms):
        self.atoms = list(atoms)
        self.k = len(self.atoms)
        if self.k > 8:
            raise AnalysisError('too many atoms')
        self.n = 1 << self.k
        self.full = (1 << self.n) - 1
        self.mask = {}
        for i, a in enumerate(self.atoms):
            m = 0
            for mt in range(self.n):
                if mt >> i & 1:
                    m |= 1 << mt
            self.mask[a] = m

    def __getitem__(self, a):
        return self.mask[a]

    def neg(self, m):
        return self.full & ~m

    def formula(self, m):
        if not isinstance(m, int):
            return repr(m)
        if m == 0:
            return '{}'
        if m == self.full:
            return 'ALL'
        terms = []
        for mt in range(self.n):
            if m >> mt & 1:
                terms.append('&'.join(('' if mt >> i & 1 else '~') + a for i, a in enumerate(self.atoms)))
        if len(terms) > 6:
            return '%d/%d minterms' % (len(terms), self.n)
        return ' | '.join(terms)

    def diff_witness(self, got, want):
        """A valuation on which two masks differ, as text."""
        if not isinstance(got, int):
            return 'not a set value: %r' % (got,)
        x = got ^ want
        for mt in range(self.n):
            if x >> mt & 1:
                val = ', '.join('%s%s' % (a, '+' if mt >> i & 1 else '-') for i, a in enumerate(self.atoms))
                return 'an element with membership {%s} is %s the computed set but %s the specified one' % (
                    val, 'in' if got >> mt & 1 else 'not in', 'in' if want >> mt & 1 else 'not in')
        return 'equal'


def plain(v):
    """Convert internal values to plain ones: SV -> int mask, containers recursively."""
    if isinstance(v, SV):
        return v.m
    if isinstance(v, tuple):
        return tuple(plain(x) for x in v)
    if isinstance(v, list):
        return [plain(x) for x in v]
    if isinstance(v, dict):
        return dict((k, plain(x)) for k, x in v.items())
    return v


def wrap(v):
    """Model results may be plain ints: give each its own set object."""
    if isinstance(v, bool):
        return v
    if isinstance(v, int):
        return SV(v)
    if isinstance(v, tuple):
        return tuple(wrap(x) for x in v)
    if isinstance(v, list):
        return [wrap(x) for x in v]
    if isinstance(v, dict):
        return dict((k, wrap(x)) for k, x in v.items())
    return v


class _Env(object):
    """dict-like view: reads give plain values, writes accept plain values / Opaque."""

    def __init__(self, store):
        self._s = store

    def __getitem__(self, k):
        return plain(self._s[k])

    def get(self, k, d=None):
        return plain(self._s[k]) if k in self._s else d

    def __setitem__(self, k, v):
        self._s[k] = wrap(v)

    def __contains__(self, k):
        return k in self._s

    def items(self):
        return [(k, plain(v)) for k, v in self._s.items()]

    def raw(self, k):
        return self._s.get(k)


class SetInterp(object):
    """Evaluates expressions / executes straight-line statements over a Universe."""

    def __init__(self, uni, env=None, elems=None, model=None):
        self.u = uni
        self._store = {}
        for k, v in (env or {}).items():
            self._store[k] = wrap(v)
        self.env = _Env(self._store)
        self.elems = dict(elems or {})    # normalised element text -> mask (singletons)
        self.model = model                # callable(interp, expr) -> plain value or None
        self.if_model = None              # callable(interp, If statement) -> True when it executed the statement itself
        self.for_model = None             # callable(interp, For statement) -> True when it executed the statement itself
        self.fold = None                  # callable(expr) -> constant value of a name / expression, or None

    # -- public (plain values) ----------------------------------------------
    def eval(self, e):
        return plain(self._ev(e))

    def try_eval(self, e):
        try:
            return self.eval(e)
        except Unmodelled:
            return Opaque(e)

    def as_set(self, v, expr):
        v = plain(v)
        if isinstance(v, int) and not isinstance(v, bool):
            return v
        raise Unmodelled('expression %s is not a set value (%r)' % (norm(expr), v))

    def tracked(self, name):
        return isinstance(self._store.get(name), (SV, tuple, list, dict))

    # -- internals -------------------------------------------------------------
    def elem(self, e):
        key = norm(e)
        if key in self.elems:
            return self.elems[key]
        if self.fold is not None and not isinstance(e, ast.Constant):
            v = self.fold(e)      # a module-level constant naming a known element (_INNER_NAME = 'next')
            if isinstance(v, str) and repr(v) in self.elems:
                return self.elems[repr(v)]
        raise Unmodelled('set element %s is not a known symbolic element' % key)

    def _mask(self, e):
        return self.as_set(self._ev(e), e)

    def _ev(self, e):
        """-> SV (possibly an existing object = alias) | Opaque | tuple/list/dict of those."""
        if isinstance(e, ast.Name):
            if e.id in self._store:
                return self._store[e.id]
            if self.model is not None:
                r = self.model(self, e)
                if r is not None:
                    return wrap(r)
            if self.fold is not None:
                # a module-level constant holding a collection of known elements (_RESERVED = frozenset(['next', 'context']))
                v = self.fold(e)
                if isinstance(v, (set, frozenset, tuple, list)) and all(isinstance(x, str) and repr(x) in self.elems for x in v):
                    m = 0
                    for x in v:
                        m |= self.elems[repr(x)]
                    return SV(m)
            raise Unmodelled('unbound name %s in set expression' % e.id)
        if self.model is not None and isinstance(e, (ast.Call, ast.Attribute, ast.Subscript)):
            r = self.model(self, e)
            if r is not None:
                return wrap(r)
        if isinstance(e, (ast.List, ast.Tuple, ast.Set)):
            m = 0
            try:
                for x in e.elts:
                    m |= self.elem(x)
            except Unmodelled:
                # not a display of symbolic elements: ``(a, f(b))`` is the tuple of the values of its items (``x, y = a, f(b)``)
                if isinstance(e, (ast.List, ast.Tuple)) and e.elts and not any(isinstance(x, (ast.Starred, ast.Constant)) for x in e.elts):
                    vals = [self._ev(x) for x in e.elts]
                    return tuple(vals) if isinstance(e, ast.Tuple) else vals
                raise
            return SV(m)
        if isinstance(e, ast.Constant) and e.value in ((), None):
            return SV(0)
        if isinstance(e, ast.BinOp):
            lv, rv = self._ev(e.left), self._ev(e.right)
            if isinstance(lv, list) and isinstance(rv, list) and isinstance(e.op, ast.Add):
                return lv + rv
            l, r = self.as_set(lv, e.left), self.as_set(rv, e.right)
            if isinstance(e.op, ast.BitOr):
                return SV(l | r)
            if isinstance(e.op, ast.BitAnd):
                return SV(l & r)
            if isinstance(e.op, ast.Sub):
                return SV(l & self.u.neg(r))
            if isinstance(e.op, ast.BitXor):
                return SV(l ^ r)
            raise Unmodelled('operator %s on sets' % type(e.op).__name__)
        if isinstance(e, ast.BoolOp) and isinstance(e.op, ast.Or):
            # "list(zip(*sigs)) or ((), ())" -- value-preserving default
            return self._ev(e.values[0])
        if isinstance(e, ast.Call):
            f = e.func
            if isinstance(f, ast.Name) and f.id in ('set', 'frozenset', 'list', 'tuple', 'sorted'):
                if not e.args:
                    return SV(0)
                v = self._ev(e.args[0])
                if isinstance(v, SV):
                    return SV(v.m)          # a *copy*
                return v
            if isinstance(f, ast.Attribute):
                if norm(f) in ('set.union', 'frozenset.union') and e.args and not any(isinstance(a, ast.Starred) for a in e.args):
                    m = 0                   # set.union(a, b, c): the unbound method, first argument is the receiver
                    for a in e.args:
                        m |= self._mask(a)
                    return SV(m)
                if norm(f) in ('set.intersection', 'frozenset.intersection') and e.args and not any(isinstance(a, ast.Starred) for a in e.args):
                    m = self.u.full
                    for a in e.args:
                        m &= self._mask(a)
                    return SV(m)
                if norm(f) == 'set.union' and len(e.args) == 1 and isinstance(e.args[0], ast.Starred):
                    v = self._ev(e.args[0].value)
                    if isinstance(v, list):
                        m = 0
                        for x in v:
                            m |= self.as_set(x, e)
                        return SV(m)
                    raise Unmodelled('set.union(*%s)' % norm(e.args[0].value))
                if f.attr in ('union', 'difference', 'intersection', 'symmetric_difference', 'copy'):
                    cur = self._mask(f.value)
                    for a in e.args:
                        r = self._mask(a)
                        if f.attr == 'union':
                            cur |= r
                        elif f.attr == 'difference':
                            cur &= self.u.neg(r)
                        elif f.attr == 'intersection':
                            cur &= r
                        else:
                            cur ^= r
                    return SV(cur)
                if f.attr in ('keys',) and not e.args:
                    v = self._ev(f.value)
                    return SV(v.m) if isinstance(v, SV) else v
                if f.attr == 'values' and not e.args:
                    v = self._ev(f.value)
                    if isinstance(v, dict):
                        return list(v.values())
            raise Unmodelled('call %s' % norm(e))
        if isinstance(e, ast.Dict):
            out = {}
            for k, v in zip(e.keys, e.values):
                if not isinstance(k, ast.Constant):
                    raise Unmodelled('dict key')
                out[k.value] = self._ev(v)
            return out
        if isinstance(e, (ast.ListComp, ast.SetComp, ast.GeneratorExp)):
            if self.model is not None:
                r = self.model(self, e)
                if r is not None:
                    return wrap(r)
            return SV(self._comp(e))
        if isinstance(e, ast.Starred):
            return self._ev(e.value)
        raise Unmodelled('expression %s' % norm(e))

    def _comp(self, e):
        if len(e.generators) != 1:
            raise Unmodelled('nested comprehension')
        g = e.generators[0]
        if not (isinstance(g.target, ast.Name) and isinstance(e.elt, ast.Name) and e.elt.id == g.target.id):
            raise Unmodelled('comprehension that transforms its elements: %s' % norm(e))
        cur = self._mask(g.iter)
        for c in g.ifs:
            cur &= self._filter(c, g.target.id)
        return cur

    def _filter(self, c, var):
        if isinstance(c, ast.Compare) and len(c.ops) == 1 and isinstance(c.left, ast.Name) and c.left.id == var:
            r = self._mask(c.comparators[0])
            if isinstance(c.ops[0], ast.In):
                return r
            if isinstance(c.ops[0], ast.NotIn):
                return self.u.neg(r)
        if isinstance(c, ast.UnaryOp) and isinstance(c.op, ast.Not):
            return self.u.neg(self._filter(c.operand, var))
        if isinstance(c, ast.BoolOp):
            ms = [self._filter(v, var) for v in c.values]
            out = ms[0]
            for m in ms[1:]:
                out = out & m if isinstance(c.op, ast.And) else out | m
            return out
        raise Unmodelled('comprehension filter %s' % norm(c))

    # -- statements ----------------------------------------------------------
    def bind(self, target, value, st):
        if isinstance(target, ast.Name):
            self._store[target.id] = value       # aliasing: the same SV object
            return
        if isinstance(target, (ast.Tuple, ast.List)):
            if isinstance(value, (tuple, list)) and len(value) == len(target.elts):
                for t, v in zip(target.elts, value):
                    self.bind(t, v, st)
                return
            if isinstance(value, Opaque):
                for i, t in enumerate(target.elts):
                    self.bind(t, Opaque(st.value if hasattr(st, 'value') else st, tag=(value.tag, i)), st)
                return
            raise Unmodelled('cannot unpack %r in %s' % (value, norm(st)))
        raise Unmodelled('assignment target %s' % norm(target))

    def _try_ev(self, e):
        try:
            return self._ev(e)
        except Unmodelled:
            return Opaque(e)

    def exec_stmt(self, st):
        if isinstance(st, ast.Assign):
            v = self._try_ev(st.value)
            for t in st.targets:
                self.bind(t, v, st)
            return
        if isinstance(st, ast.AugAssign) and isinstance(st.target, ast.Name):
            cur = self._store.get(st.target.id)
            if not isinstance(cur, SV):
                self._store[st.target.id] = Opaque(st)
                return
            r = self._mask(st.value)
            # in-place on the set object: visible through every alias
            if isinstance(st.op, ast.BitOr):
                cur.m |= r
            elif isinstance(st.op, ast.BitAnd):
                cur.m &= r
            elif isinstance(st.op, ast.Sub):
                cur.m &= self.u.neg(r)
            elif isinstance(st.op, ast.BitXor):
                cur.m ^= r
            else:
                raise Unmodelled('augmented %s' % norm(st))
            return
        if isinstance(st, ast.Expr):
            v = st.value
            if isinstance(v, ast.Constant):
                return
            if isinstance(v, ast.Call) and isinstance(v.func, ast.Attribute) and isinstance(v.func.value, ast.Name):
                name, meth = v.func.value.id, v.func.attr
                cur = self._store.get(name)
                if isinstance(cur, SV):
                    if meth in ('update', 'difference_update', 'intersection_update', 'symmetric_difference_update'):
                        for a in v.args:
                            r = self._mask(a)
                            if meth == 'update':
                                cur.m |= r
                            elif meth == 'difference_update':
                                cur.m &= self.u.neg(r)
                            elif meth == 'intersection_update':
                                cur.m &= r
                            else:
                                cur.m ^= r
                        return
                    if meth == 'add':
                        cur.m |= self.elem(v.args[0])
                        return
                    if meth in ('discard', 'remove'):
                        cur.m &= self.u.neg(self.elem(v.args[0]))
                        return
                    if meth == 'clear':
                        cur.m = 0
                        return
                    raise Unmodelled('method %s on tracked set %s' % (meth, name))
            # a call that does not involve tracked names is irrelevant (print, logging...)
            if any(isinstance(n, ast.Name) and self.tracked(n.id) for n in ast.walk(v)):
                if isinstance(v, ast.Call) and not (isinstance(v.func, ast.Attribute) and isinstance(v.func.value, ast.Name)
                                                     and self.tracked(v.func.value.id)):
                    return
                raise Unmodelled('statement %s touches tracked sets' % norm(st))
            return
        if isinstance(st, ast.If):
            if self.if_model is not None and self.if_model(self, st):
                return
            # guards that only raise / return early without touching tracked names are skipped
            stores = set()
            for n in ast.walk(st):
                if isinstance(n, ast.Name) and isinstance(n.ctx, ast.Store):
                    stores.add(n.id)
                if isinstance(n, ast.Call) and isinstance(n.func, ast.Attribute) and isinstance(n.func.value, ast.Name) \
                        and self.tracked(n.func.value.id) and n.func.attr in ('update', 'add', 'discard', 'remove', 'clear',
                                                                              'difference_update', 'intersection_update'):
                    stores.add(n.func.value.id)
            if any(self.tracked(s) for s in stores):
                raise Unmodelled('conditional update of tracked sets: %s' % norm(st.test))
            for s in stores:
                self._store[s] = Opaque(st)
            return
        if isinstance(st, ast.For):
            if self.for_model is not None and self.for_model(self, st):
                return
            # ``for v in A: if <membership tests on v>: X.append(v)``: X gains the elements of A that pass the tests
            if isinstance(st.target, ast.Name) and not st.orelse:
                self._filter_loop(st.body, st.target.id, self._mask(st.iter))
                return
            raise Unmodelled('loop %s' % norm(st)[:80])
        if isinstance(st, (ast.Raise, ast.Pass, ast.Assert, ast.Return)):
            return
        if isinstance(st, (ast.Import, ast.ImportFrom, ast.Global, ast.Nonlocal)):
            return
        raise Unmodelled('statement %s' % norm(st)[:80])

    def _filter_loop(self, body, var, cur):
        for st in body:
            if isinstance(st, ast.Pass) or (isinstance(st, ast.Expr) and isinstance(st.value, ast.Constant)):
                continue
            if isinstance(st, ast.If):
                m = self._filter(st.test, var)
                self._filter_loop(st.body, var, cur & m)
                self._filter_loop(st.orelse, var, cur & self.u.neg(m))
                continue
            if isinstance(st, ast.Expr) and isinstance(st.value, ast.Call) and isinstance(st.value.func, ast.Attribute) and \
                    isinstance(st.value.func.value, ast.Name) and st.value.func.attr in ('append', 'add') and len(st.value.args) == 1 \
                    and isinstance(st.value.args[0], ast.Name) and st.value.args[0].id == var:
                tgt = self._store.get(st.value.func.value.id)
                if isinstance(tgt, SV):
                    tgt.m |= cur
                    continue
            raise Unmodelled('loop body statement %s' % norm(st)[:80])

    def exec_block(self, stmts):
        for st in stmts:
            self.exec_stmt(st)
