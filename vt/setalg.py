"""E5a -- set algebra over symbolic atoms.

A set-valued expression of the analysed source is evaluated to its exact meaning as a Boolean
function of k membership atoms: the value is the set of *minterms* (one per valuation of the
atoms) it contains, encoded as an int bitmask over the 2^k minterms.  Two expressions are
equivalent for all inputs iff their masks are equal (atoms are in general position), so the
comparison with the property's formula is insensitive to algebraic rewrites (``a - b`` vs
``a.difference(b)``, reordering, renaming) and sensitive to every inequivalent edit.

Nothing is executed: this is an abstract interpreter over a finite domain with explicit transfer
functions; syntax outside the modelled subset raises ``Unmodelled`` (=> ANALYSIS-ERROR).
"""
import ast

from .core import AnalysisError, norm


class Unmodelled(AnalysisError):
    pass


class Opaque(object):
    """A non-set value we carry around (function builder, list of functions...)."""

    def __init__(self, expr, tag=None):
        self.expr, self.tag = expr, tag

    def __repr__(self):
        return '<Opaque %s %s>' % (self.tag or '', norm(self.expr)[:40])


class Universe(object):
    def __init__(self, atoms):
        self.atoms = list(atoms)
        self.k = len(self.atoms)
        if self.k > 8:
            raise AnalysisError('too many atoms')
        self.n = 1 << self.k
        self.full = (1 << self.n) - 1
        self.mask = {}
        for i, a in enumerate(self.atoms):
            m = 0
            for mt in range(self.n):
                if mt >> i & 1:
                    m |= 1 << mt
            self.mask[a] = m

    def __getitem__(self, a):
        return self.mask[a]

    def neg(self, m):
        return self.full & ~m

    def formula(self, m):
        """Human-readable DNF-ish rendering (for reports)."""
        if m == 0:
            return '{}'
        if m == self.full:
            return 'ALL'
        # try to express as union of atom-conjunctions (prime-implicant-free, just minterms grouped)
        terms = []
        for mt in range(self.n):
            if m >> mt & 1:
                terms.append('&'.join(('' if mt >> i & 1 else '~') + a for i, a in enumerate(self.atoms)))
        if len(terms) > 6:
            return '%d/%d minterms' % (len(terms), self.n)
        return ' | '.join(terms)

    def diff_witness(self, got, want):
        """A valuation on which two masks differ, as text."""
        x = got ^ want
        for mt in range(self.n):
            if x >> mt & 1:
                val = ', '.join('%s%s' % (a, '+' if mt >> i & 1 else '-') for i, a in enumerate(self.atoms))
                return 'an element with membership {%s} is %s the computed set but %s the specified one' % (
                    val, 'in' if got >> mt & 1 else 'not in', 'in' if want >> mt & 1 else 'not in')
        return 'equal'


class SetInterp(object):
    """Evaluates expressions / executes straight-line statements over a Universe."""

    def __init__(self, uni, env=None, elems=None, model=None):
        self.u = uni
        self.env = dict(env or {})
        self.elems = dict(elems or {})    # normalised element text -> mask (singletons)
        self.model = model                # callable(interp, call_expr) -> value or None
        self.log = []

    # -- expressions -------------------------------------------------------
    def elem(self, e):
        key = norm(e)
        if key in self.elems:
            return self.elems[key]
        if isinstance(e, ast.Name) and isinstance(self.env.get(e.id), int) and e.id in self.elems:
            return self.elems[e.id]
        raise Unmodelled('set element %s is not a known symbolic element' % key)

    def as_set(self, v, expr):
        if isinstance(v, int):
            return v
        raise Unmodelled('expression %s is not a set value (%r)' % (norm(expr), v))

    def eval(self, e):
        if self.model is not None and isinstance(e, (ast.Call, ast.Attribute, ast.Subscript)):
            r = self.model(self, e)
            if r is not None:
                return r
        if isinstance(e, ast.Name):
            if e.id in self.env:
                return self.env[e.id]
            if self.model is not None:
                r = self.model(self, e)
                if r is not None:
                    return r
            raise Unmodelled('unbound name %s in set expression' % e.id)
        if isinstance(e, (ast.List, ast.Tuple, ast.Set)):
            m = 0
            for x in e.elts:
                m |= self.elem(x)
            return m
        if isinstance(e, ast.Constant) and e.value in ((), None):
            return 0
        if isinstance(e, ast.BinOp):
            l = self.eval(e.left)
            r = self.eval(e.right)
            if isinstance(l, list) and isinstance(r, list) and isinstance(e.op, ast.Add):
                return l + r
            l, r = self.as_set(l, e.left), self.as_set(r, e.right)
            if isinstance(e.op, ast.BitOr):
                return l | r
            if isinstance(e.op, ast.BitAnd):
                return l & r
            if isinstance(e.op, ast.Sub):
                return l & self.u.neg(r)
            if isinstance(e.op, ast.BitXor):
                return l ^ r
            raise Unmodelled('operator %s on sets' % type(e.op).__name__)
        if isinstance(e, ast.BoolOp) and isinstance(e.op, ast.Or):
            # "list(zip(*sigs)) or ((), ())" -- value-preserving default
            return self.eval(e.values[0])
        if isinstance(e, ast.Call):
            f = e.func
            if isinstance(f, ast.Name) and f.id in ('set', 'frozenset', 'list', 'tuple', 'sorted'):
                if not e.args:
                    return 0
                return self.eval(e.args[0])
            if isinstance(f, ast.Attribute):
                if norm(f) == 'set.union' and len(e.args) == 1 and isinstance(e.args[0], ast.Starred):
                    v = self.eval(e.args[0].value)
                    if isinstance(v, list):
                        m = 0
                        for x in v:
                            m |= self.as_set(x, e)
                        return m
                    raise Unmodelled('set.union(*%s)' % norm(e.args[0].value))
                if f.attr in ('union', 'difference', 'intersection', 'symmetric_difference', 'copy'):
                    cur = self.as_set(self.eval(f.value), f.value)
                    for a in e.args:
                        r = self.as_set(self.eval(a), a)
                        if f.attr == 'union':
                            cur |= r
                        elif f.attr == 'difference':
                            cur &= self.u.neg(r)
                        elif f.attr == 'intersection':
                            cur &= r
                        else:
                            cur ^= r
                    return cur
                if f.attr in ('keys',) and not e.args:
                    return self.eval(f.value)
                if f.attr == 'values' and not e.args:
                    v = self.eval(f.value)
                    if isinstance(v, dict):
                        return list(v.values())
            raise Unmodelled('call %s' % norm(e))
        if isinstance(e, ast.Dict):
            out = {}
            for k, v in zip(e.keys, e.values):
                if not isinstance(k, ast.Constant):
                    raise Unmodelled('dict key')
                out[k.value] = self.eval(v)
            return out
        if isinstance(e, (ast.ListComp, ast.SetComp, ast.GeneratorExp)):
            return self._comp(e)
        if isinstance(e, ast.Starred):
            return self.eval(e.value)
        raise Unmodelled('expression %s' % norm(e))

    def _comp(self, e):
        if len(e.generators) != 1:
            raise Unmodelled('nested comprehension')
        g = e.generators[0]
        if not (isinstance(g.target, ast.Name) and isinstance(e.elt, ast.Name) and e.elt.id == g.target.id):
            raise Unmodelled('comprehension that transforms its elements: %s' % norm(e))
        cur = self.as_set(self.eval(g.iter), g.iter)
        for c in g.ifs:
            cur &= self._filter(c, g.target.id)
        return cur

    def _filter(self, c, var):
        if isinstance(c, ast.Compare) and len(c.ops) == 1 and isinstance(c.left, ast.Name) and c.left.id == var:
            r = self.as_set(self.eval(c.comparators[0]), c.comparators[0])
            if isinstance(c.ops[0], ast.In):
                return r
            if isinstance(c.ops[0], ast.NotIn):
                return self.u.neg(r)
        if isinstance(c, ast.UnaryOp) and isinstance(c.op, ast.Not):
            return self.u.neg(self._filter(c.operand, var))
        if isinstance(c, ast.BoolOp):
            ms = [self._filter(v, var) for v in c.values]
            out = ms[0]
            for m in ms[1:]:
                out = out & m if isinstance(c.op, ast.And) else out | m
            return out
        raise Unmodelled('comprehension filter %s' % norm(c))

    # -- statements ----------------------------------------------------------
    def bind(self, target, value, st):
        if isinstance(target, ast.Name):
            self.env[target.id] = value
            return
        if isinstance(target, (ast.Tuple, ast.List)):
            if isinstance(value, (tuple, list)) and len(value) == len(target.elts):
                for t, v in zip(target.elts, value):
                    self.bind(t, v, st)
                return
            if isinstance(value, Opaque):
                for i, t in enumerate(target.elts):
                    self.bind(t, Opaque(st.value if hasattr(st, 'value') else st, tag=(value.tag, i)), st)
                return
            raise Unmodelled('cannot unpack %r in %s' % (value, norm(st)))
        raise Unmodelled('assignment target %s' % norm(target))

    def try_eval(self, e):
        try:
            return self.eval(e)
        except Unmodelled:
            return Opaque(e)

    def tracked(self, name):
        return isinstance(self.env.get(name), (int, tuple, list, dict))

    def exec_stmt(self, st):
        if isinstance(st, ast.Assign):
            v = self.try_eval(st.value)
            for t in st.targets:
                self.bind(t, v, st)
            return
        if isinstance(st, ast.AugAssign) and isinstance(st.target, ast.Name):
            cur = self.env.get(st.target.id)
            if not isinstance(cur, int):
                self.env[st.target.id] = Opaque(st)
                return
            r = self.as_set(self.eval(st.value), st.value)
            if isinstance(st.op, ast.BitOr):
                cur |= r
            elif isinstance(st.op, ast.BitAnd):
                cur &= r
            elif isinstance(st.op, ast.Sub):
                cur &= self.u.neg(r)
            elif isinstance(st.op, ast.BitXor):
                cur ^= r
            else:
                raise Unmodelled('augmented %s' % norm(st))
            self.env[st.target.id] = cur
            return
        if isinstance(st, ast.Expr):
            v = st.value
            if isinstance(v, ast.Constant):
                return
            if isinstance(v, ast.Call) and isinstance(v.func, ast.Attribute) and isinstance(v.func.value, ast.Name):
                name, meth = v.func.value.id, v.func.attr
                cur = self.env.get(name)
                if isinstance(cur, int):
                    if meth in ('update', 'difference_update', 'intersection_update', 'symmetric_difference_update'):
                        for a in v.args:
                            r = self.as_set(self.eval(a), a)
                            if meth == 'update':
                                cur |= r
                            elif meth == 'difference_update':
                                cur &= self.u.neg(r)
                            elif meth == 'intersection_update':
                                cur &= r
                            else:
                                cur ^= r
                        self.env[name] = cur
                        return
                    if meth == 'add':
                        self.env[name] = cur | self.elem(v.args[0])
                        return
                    if meth in ('discard', 'remove'):
                        self.env[name] = cur & self.u.neg(self.elem(v.args[0]))
                        return
                    if meth == 'clear':
                        self.env[name] = 0
                        return
                    raise Unmodelled('method %s on tracked set %s' % (meth, name))
            # a call that does not involve tracked names is irrelevant (print, logging...)
            if any(isinstance(n, ast.Name) and self.tracked(n.id) for n in ast.walk(v)):
                # reading a tracked set in a non-mutating call is harmless
                if isinstance(v, ast.Call) and not (isinstance(v.func, ast.Attribute) and isinstance(v.func.value, ast.Name)
                                                     and self.tracked(v.func.value.id)):
                    return
                raise Unmodelled('statement %s touches tracked sets' % norm(st))
            return
        if isinstance(st, ast.If):
            # guards that only raise / return early without touching tracked names are skipped
            stores = set()
            for n in ast.walk(st):
                if isinstance(n, ast.Name) and isinstance(n.ctx, ast.Store):
                    stores.add(n.id)
                if isinstance(n, ast.Call) and isinstance(n.func, ast.Attribute) and isinstance(n.func.value, ast.Name) \
                        and self.tracked(n.func.value.id) and n.func.attr in ('update', 'add', 'discard', 'remove', 'clear',
                                                                              'difference_update', 'intersection_update'):
                    stores.add(n.func.value.id)
            if any(self.tracked(s) for s in stores):
                raise Unmodelled('conditional update of tracked sets: %s' % norm(st.test))
            for s in stores:
                self.env[s] = Opaque(st)
            return
        if isinstance(st, (ast.Raise, ast.Pass, ast.Assert, ast.Return)):
            return
        if isinstance(st, (ast.Import, ast.ImportFrom, ast.Global, ast.Nonlocal)):
            return
        raise Unmodelled('statement %s' % norm(st)[:80])

    def exec_block(self, stmts):
        for st in stmts:
            self.exec_stmt(st)
