"""Self-validation corpus: breaking variants and behaviour-preserving twins (text edits of a scratch copy)."""

S = 'clastic/sinter.py'
C = 'clastic/middleware/core.py'
R = 'clastic/route.py'
A = 'clastic/application.py'
E = 'clastic/errors.py'
ST = 'clastic/static.py'
CK = 'clastic/middleware/cookie.py'
STATS = 'clastic/middleware/stats.py'
GZ = 'clastic/middleware/compress.py'
CC = 'clastic/middleware/client_cache.py'
PF = 'clastic/middleware/profile.py'
RS = 'clastic/render/simple.py'
FL = 'clastic/flaw.py'
META = 'clastic/meta.py'
CE = 'clastic/_contextual_errors.py'

VARIANTS = []


def B(id, props, rule, *edits):
    VARIANTS.append({'id': id, 'kind': 'break', 'props': list(props), 'rule': rule, 'edits': list(edits)})


def T(id, props, *edits):
    VARIANTS.append({'id': id, 'kind': 'twin', 'props': list(props), 'rule': None, 'edits': list(edits)})


# ------------------------------------------------------------------ C01 / C02 / C03 / C04 (chain builder)
B('c01_drop_minus_provided', ['C01'], 'R01.c',
  (S, 'required_sofar |= set(undefaulted) - provided_sofar', 'required_sofar |= set(undefaulted)'))
B('c01_update_before_use', ['C01'], 'R01.c',
  (S, '        required_sofar |= set(undefaulted) - provided_sofar\n        provided_sofar.update(p)\n',
      '        provided_sofar.update(p)\n        required_sofar |= set(undefaulted) - provided_sofar\n'))
B('c01_args_reqs_or_opts', ['C01', 'C02'], {'C01': 'R01.c', 'C02': 'R02.e'},
  (S, 'args = reqs | (preprovided & opts)', 'args = reqs | opts'))
B('c01_args_only_reqs', ['C01', 'C02'], {'C01': 'R01.c', 'C02': 'R02.e'},
  (S, 'args = reqs | (preprovided & opts)', 'args = reqs'))
B('c01_unresolved_minus_opts', ['C01'], 'R01.c',
  (S, 'unresolved = tuple(reqs - preprovided)', 'unresolved = tuple(reqs - preprovided - opts)'))
B('c01_no_render_raise', ['C01', 'C04'], {'C01': 'R01.b', 'C04': 'R04.e'},
  (C, '    if rn_unres:\n        raise NameError("unresolved render middleware arguments: %r"\n                        % list(rn_unres))\n', ''))
B('c01_raise_type', ['C01'], 'R01.b',
  (C, '        raise NameError("unresolved endpoint middleware arguments: %r"', '        raise TypeError("unresolved endpoint middleware arguments: %r"'))
B('c01_rn_avail_forgets_context', ['C01', 'C04'], {'C01': 'R01.d', 'C04': 'R04.e'},
  (C, "rn_avail = ep_avail | set(['context'])", 'rn_avail = set(ep_avail)'))
B('c01_context_in_request_phase', ['C01', 'C04'], {'C01': 'R01.d', 'C04': 'R04'},
  (C, "req_avail = set(preprovided) - set(['next', 'context'])", "req_avail = set(preprovided) - set(['next'])"))
B('c01_ep_avail_forgets_provides', ['C01'], 'R01.d',
  (C, 'ep_avail = req_avail | req_all_provides', 'ep_avail = set(req_avail)'))
B('c01_pair_endpoint_with_provides', ['C01', 'C03'], {'C01': 'R01.d', 'C03': 'R03.d'},
  (C, 'ep_sigs = [(mw.endpoint, mw.endpoint_provides)', 'ep_sigs = [(mw.endpoint, mw.provides)'))
B('c01_req_args_keep_context', ['C01'], 'R01.d',
  (C, "req_args = (ep_args | rn_args) - set(['context'])", 'req_args = (ep_args | rn_args)'))
B('c01_lazy_chain', ['C01'], 'R01.a',
  (R, '        self._execute = make_middleware_chain(self.middlewares, unbound_route.endpoint, render, provided)\n',
      '        self._execute = None\n        self._chain_args = (self.middlewares, unbound_route.endpoint, render, provided)\n'),
  (R, '        return inject(self._execute, injectables)',
      '        if self._execute is None:\n            self._execute = make_middleware_chain(*self._chain_args)\n        return inject(self._execute, injectables)'))
B('c01_skip_null_route_chain', ['C01'], 'R01.a',
  (A, '        self._null_route = NullRoute().bind(self)\n', '        self._null_route = None\n'))
B('c01_args_accessor', ['C01', 'C02'], {'C01': 'R01.e', 'C02': 'R02.b'},
  (S, 'inner_args = get_fb(funcs[0]).get_arg_names()', 'inner_args = get_fb(funcs[0]).args'))
B('c01_provided_without_resources', ['C01', 'C04'], {'C01': 'R01.a', 'C04': 'R04.a'},
  (R, "                            'resources': set(self.resources)}", "                            }"))
B('c01_next_test_dropped', ['C01', 'C04'], {'C01': 'R01.b', 'C04': 'R04.e'},
  (C, "    if 'next' in get_arg_names(render):\n        raise NameError(_next_exc_msg % render)\n", ''))
B('c01_alias_inplace_union', ['C01', 'C04'], {'C01': 'R01.d', 'C04': 'R04.e'},
  (C, 'ep_avail = req_avail | req_all_provides', 'ep_avail = req_avail\n    ep_avail |= req_all_provides'))
B('c02_params_alias_base', ['C02'], 'R02.c',
  (A, '            params = dict(base_params, **path_params)', '            params = base_params\n            params.update(path_params)'))
T('c01_twin_copy_then_inplace', ['C01', 'C04'],
  (C, 'ep_avail = req_avail | req_all_provides', 'ep_avail = set(req_avail)\n    ep_avail |= req_all_provides'))
T('c01_twin_difference_method', ['C01'],
  (S, 'required_sofar |= set(undefaulted) - provided_sofar', 'required_sofar |= set(undefaulted).difference(provided_sofar)'))
T('c01_twin_ior_update', ['C01'],
  (S, '        provided_sofar.update(p)\n', '        provided_sofar |= set(p)\n'))
T('c01_twin_args_reordered', ['C01', 'C02'],
  (S, 'args = reqs | (preprovided & opts)', 'args = (opts & preprovided) | reqs'))
T('c01_twin_comprehension_partition', ['C01'],
  (S, '        defaulted, undefaulted = iterutils.partition(arg_names, key=defaults_dict.__contains__)\n',
      '        defaulted = [a for a in arg_names if a in defaults_dict]\n        undefaulted = [a for a in arg_names if a not in defaults_dict]\n'))
T('c01_twin_avail_union_method', ['C01', 'C04'],
  (C, 'ep_avail = req_avail | req_all_provides', 'ep_avail = req_avail.union(req_all_provides)'))
T('c01_twin_unres_reordered', ['C01'],
  (C, "    if ep_unres:\n        raise NameError(", "    if len(ep_unres) > 0:\n        raise NameError("))

B('c02_defaults_after_injectables', ['C02'], 'R02.c',
  (S, '    all_kwargs = fb.get_defaults_dict()\n    all_kwargs.update(injectables)\n',
      '    all_kwargs = dict(injectables)\n    all_kwargs.update(fb.get_defaults_dict())\n'))
B('c02_execute_resources_after_kwargs', ['C02'], 'R02.c',
  (R, '        injectables.update(self.resources)\n        injectables.update(kwargs)\n        return inject(self._execute',
      '        injectables.update(kwargs)\n        injectables.update(self.resources)\n        return inject(self._execute'))
B('c02_positional_emission', ['C02', 'C03'], {'C02': 'R02.a', 'C03': 'R03'},
  (S, "['%s=%s' % kv for kv in inner_arg_items", "['%s' % kv[1] for kv in inner_arg_items"))
B('c02_no_scope_filter', ['C02', 'C01'], {'C02': 'R02.b', 'C01': 'R01.f'},
  (S, "inner_args = ', '.join(['%s=%s' % kv for kv in inner_arg_items\n                           if kv[0] in params_sofar])",
      "inner_args = ', '.join(['%s=%s' % kv for kv in inner_arg_items])"))
B('c02_deepcopy_resources', ['C02'], 'R02.d',
  (R, '        injectables.update(self.resources)\n        injectables.update(kwargs)\n        return inject(self._execute',
      '        injectables.update(copy.deepcopy(self.resources))\n        injectables.update(kwargs)\n        return inject(self._execute'))
B('c02_inject_no_filter', ['C02'], 'R02.b',
  (S, '    kwargs = dict([(k, v) for k, v in all_kwargs.items() if k in fb.get_arg_names()])\n    return f(**kwargs)',
      '    return f(**all_kwargs)'))
B('c02_dispatch_resources_on_top', ['C02'], 'R02.c',
  (A, '            params = dict(base_params, **path_params)', '            params = dict(path_params, **base_params)'))
B('c02_application_is_route', ['C02'], 'R02.c',
  (R, "        injectables = {'_route': self,\n                       'request': request,\n                       '_application': self.bound_apps[-1]}\n        injectables.update(self.resources)\n        injectables.update(kwargs)\n        return inject(self._execute",
      "        injectables = {'_route': self,\n                       'request': request,\n                       '_application': self.bound_apps[0]}\n        injectables.update(self.resources)\n        injectables.update(kwargs)\n        return inject(self._execute"))
B('c02_named_arg_crosswire', ['C02', 'C03'], {'C02': 'R02.a', 'C03': 'R03.c'},
  (C, "    return ', '.join([a + '=' + a for a in args])", "    return ', '.join([a + '=' + b for a, b in zip(args, sorted(args))])"))
T('c02_twin_dict_literal_update', ['C02'],
  (S, '    all_kwargs = fb.get_defaults_dict()\n    all_kwargs.update(injectables)\n',
      '    all_kwargs = dict(fb.get_defaults_dict())\n    all_kwargs.update(injectables)\n'))
T('c02_twin_fstring_emission', ['C02', 'C03', 'C01'],
  (S, "['%s=%s' % kv for kv in inner_arg_items", "['%s=%s' % (kv[0], kv[1]) for kv in inner_arg_items"))

B('c03_funcs_zero', ['C03'], 'R03.b',
  (S, "return_str = '%sreturn funcs[%s](%s)\\n' % (inner_indent, level, inner_args)",
      "return_str = '%sreturn funcs[%s](%s)\\n' % (inner_indent, 0, inner_args)"))
B('c03_drop_return', ['C03'], 'R03.a',
  (S, "return_str = '%sreturn funcs[%s](%s)\\n'", "return_str = '%sfuncs[%s](%s)\\n'"))
B('c03_try_around_call', ['C03'], 'R03.a',
  (S, "return_str = '%sreturn funcs[%s](%s)\\n' % (inner_indent, level, inner_args)",
      "return_str = '%stry:\\n%s    return funcs[%s](%s)\\n%sexcept StopIteration:\\n%s    return None\\n' % (inner_indent, inner_indent, level, inner_args, inner_indent, inner_indent)"))
B('c03_invert_response_test', ['C03'], 'R03.c',
  (C, '    if isinstance(context, BaseResponse):\n        resp = context', '    if not isinstance(context, BaseResponse):\n        resp = context'))
B('c03_always_render', ['C03'], 'R03.c',
  (C, '    if isinstance(context, BaseResponse):\n        resp = context\n    else:\n        resp = render({render_args})\n',
      '    resp = render({render_args})\n'))
B('c03_merge_old_first', ['C03'], 'R03.d',
  (C, '    old = list(old)\n    merged = list(new)\n    for mw in old:', '    merged = list(old)\n    for mw in list(new):'))
B('c03_merge_call_swapped', ['C03'], 'R03.d',
  (R, "merge_middlewares(getattr(route, 'middlewares', []), app_mws)", "merge_middlewares(app_mws, getattr(route, 'middlewares', []))"))
B('c03_sorted_middlewares', ['C03'], 'R03.d',
  (C, '                for mw in middlewares if mw.request]', '                for mw in sorted(middlewares, key=id) if mw.request]'))
B('c03_swap_chains', ['C03', 'C01'], {'C03': 'R03.c', 'C01': 'R01.d'},
  (C, '    req_func = _create_request_inner(ep_chain,\n                                     rn_chain,', '    req_func = _create_request_inner(rn_chain,\n                                     ep_chain,'))
B('c03_env_swap', ['C03'], 'R03.c',
  (C, "    env = {'endpoint': endpoint, 'render': render, 'BaseResponse': BaseResponse}", "    env = {'endpoint': render, 'render': endpoint, 'BaseResponse': BaseResponse}"))
B('c03_dup_always_dropped', ['C03'], 'R03.d',
  (C, '            if mw.reorderable:\n                continue\n            else:\n                raise ValueError(', '            if True:\n                continue\n            else:\n                raise ValueError('))
T('c03_twin_template_rename', ['C03', 'C02'],
  (C, '        resp = context\n    else:\n        resp = render({render_args})\n    return resp',
      '        result = context\n    else:\n        result = render({render_args})\n    return result'))
T('c03_twin_template_direct_returns', ['C03'],
  (C, '    if isinstance(context, BaseResponse):\n        resp = context\n    else:\n        resp = render({render_args})\n    return resp',
      '    if isinstance(context, BaseResponse):\n        return context\n    return render({render_args})'))
T('c03_twin_merge_negated', ['C03'],
  (C, '        if mw.unique and mw in merged:\n            if mw.reorderable:\n                continue\n            else:\n                raise ValueError(',
      '        if mw.unique and mw in merged:\n            if not mw.reorderable:\n                raise ValueError('),
  (C, "                                 'middleware %r' % mw.name)\n        merged.append(mw)", "                                 'middleware %r' % mw.name)\n            continue\n        merged.append(mw)"))

B('c04_drop_render_provides', ['C04'], 'R04.a',
  (C, '        for arg in mw.render_provides:\n            provided_by[arg].append(mw)\n', ''))
B('c04_drop_builtins_source', ['C04', 'C01'], {'C04': 'R04.a', 'C01': 'R01.a'},
  (R, "                            'builtins': set(RESERVED_ARGS),\n", ''))
B('c04_reserved_loses_dispatch_state', ['C04'], 'R04.b',
  (R, "_REQUEST_BUILTINS = ('request', '_application', '_route', '_dispatch_state')", "_REQUEST_BUILTINS = ('request', '_application', '_route')"))
B('c04_no_resource_check', ['C04'], 'R04.c',
  (A, "        if resource_conflicts:\n            raise NameError('resource names conflict with builtins: %r' %\n                            resource_conflicts)\n", ''))
B('c04_skip_render_slot', ['C04'], 'R04.d',
  (C, "    for f_name in ('request', 'endpoint', 'render'):", "    for f_name in ('request', 'endpoint'):"))
B('c04_conflicts_gt2', ['C04'], 'R04.a',
  (C, 'provided_by.items() if len(ps) > 1]', 'provided_by.items() if len(ps) > 2]'))
B('c04_no_first_next', ['C04'], 'R04.d',
  (C, "        if not get_arg_names(func)[0] == 'next':", "        if not 'next' in get_arg_names(func):"))
B('c04_app_mws_unchecked', ['C04'], 'R04.d',
  (A, '        check_middlewares(self.middlewares)\n', ''))
T('c04_twin_conflicts_ge2', ['C04'],
  (C, 'provided_by.items() if len(ps) > 1]', 'provided_by.items() if len(ps) >= 2]'))
T('c04_twin_set_intersection', ['C04'],
  (A, '        resource_conflicts = [r for r in RESERVED_ARGS if r in self.resources]', '        resource_conflicts = set(RESERVED_ARGS) & set(self.resources)'))

# ------------------------------------------------------------------ C05
B('c05_drop_dollar', ['C05'], 'R05.d', (R, "    regex = re.compile(full_pattern + '$')", "    regex = re.compile(full_pattern)"))
B('c05_swap_arity_flag', ['C05'], 'R05.b', (R, "                 '+': True,\n                 '*': True}", "                 '+': True,\n                 '*': False}"))
B('c05_swap_optionality', ['C05'], 'R05.b', (R, "                       '+': False,\n                       '*': True}", "                       '+': True,\n                       '*': True}"))
B('c05_match_path_no_valueerror', ['C05'], 'R05.d', (R, '        except (KeyError, TypeError, ValueError):\n            return None', '        except (KeyError, TypeError):\n            return None'))
B('c05_no_duplicate_check', ['C05'], 'R05.c', (R, "        if name in var_converter_map:\n            raise InvalidPattern('duplicate path binding %s' % name)\n", ''))
B('c05_str_consumes_slash', ['C05'], 'R05.a', (R, "_STR_PATTERN = r'[^/]+'", "_STR_PATTERN = r'.+'"))
B('c05_int_allows_empty', ['C05'], 'R05.a', (R, "_INT_PATTERN = r'[+-]?\\ *[0-9]+'", "_INT_PATTERN = r'[+-]?\\ *[0-9]*'"))
B('c05_int_no_negative', ['C05'], 'R05.a', (R, "_INT_PATTERN = r'[+-]?\\ *[0-9]+'", "_INT_PATTERN = r'[0-9]+'"))
B('c05_float_pattern_for_int', ['C05'], 'R05.a', (R, "DEFAULT_CONVS = [('int', int, _INT_PATTERN),", "DEFAULT_CONVS = [('int', int, _FLOAT_PATTERN),"))
B('c05_strict_sep_everywhere', ['C05'], 'R05.d', (R, "    sep = '/+'\n    if mode == S_STRICT:\n        sep = '/'\n", "    sep = '/'\n"))
B('c05_trailing_in_strict', ['C05'], 'R05.d', (R, "    if mode != S_STRICT:\n        full_pattern += '/*'\n", "    full_pattern += '/*'\n"))
B('c05_multi_keeps_first', ['C05'], 'R05.e', (R, "return [converter(v) for v in value.split('/')[1:]]", "return [converter(v) for v in value.split('/')]"))
B('c05_optional_none_lost', ['C05'], 'R05.e', (R, '        if not value and optional:\n            return None\n', ''))
B('c05_flags_crossed', ['C05'], 'R05.b', (R, '                                                  multi=multi,\n                                                  optional=optional)', '                                                  multi=optional,\n                                                  optional=multi)'))
B('c05_colon_not_normalised', ['C05'], 'R05.b', (R, "        if op == ':':\n            op = ''\n", ''))
B('c05_seg_tmpl_sep_outside', ['C05'], 'R05', (R, "_SEG_TMPL = '(?P<{name}>({sep}{pattern}){arity})'", "_SEG_TMPL = '(?P<{name}>{sep}({pattern}){arity})'"))
B('c05_route_skips_validation', ['C05'], 'R05.c', (R, '        _compile_path_pattern(pattern, self.slash_mode)  # checking pattern\n', ''))
B('c05_leading_slash_unchecked', ['C05'], 'R05.c', (R, "    if not pattern.startswith('/'):\n        raise InvalidPattern('URL path patterns must start with a forward'\n                             ' slash (got %r)' % pattern)\n", ''))
T('c05_twin_int_digits', ['C05'], (R, "_INT_PATTERN = r'[+-]?\\ *[0-9]+'", "_INT_PATTERN = r'[+-]?\\ *\\d+'"))
T('c05_twin_tighter_int', ['C05'], (R, "_INT_PATTERN = r'[+-]?\\ *[0-9]+'", "_INT_PATTERN = r'[+-]?[0-9]+'"))
T('c05_twin_seg_noncapturing', ['C05'], (R, "_SEG_TMPL = '(?P<{name}>({sep}{pattern}){arity})'", "_SEG_TMPL = '(?P<{name}>(?:{sep}(?:{pattern})){arity})'"))

# ------------------------------------------------------------------ C09
B('c09_wrong_code', ['C09'], 'R09.a', (E, 'class Gone(BadRequest):\n    code = 410', 'class Gone(BadRequest):\n    code = 409'))
B('c09_wrong_family', ['C09'], 'R09.a', (E, 'class BadGateway(InternalServerError):', 'class BadGateway(BadRequest):'))
B('c09_swap_mime_formats', ['C09'], 'R09.b', (E, "MIME_SUPPORT_MAP = {'text/html': 'html',\n                    'application/json': 'json',", "MIME_SUPPORT_MAP = {'text/html': 'json',\n                    'application/json': 'html',"))
B('c09_fallback_mismatch', ['C09'], 'R09.b', (E, "            fmt_name, mimetype = 'text', 'text/plain'", "            fmt_name = 'text'"))
B('c09_no_quote_escape', ['C09'], 'R09.c', (E, '                ret[k] = html_escape(v, True)', '                ret[k] = html_escape(v, False)'))
B('c09_except_path_unescaped', ['C09'], 'R09.c', (E, '                ret[k] = html_escape(repr(v), True)', '                ret[k] = repr(v)'))
B('c09_html_uses_raw_dict', ['C09'], 'R09.c', (E, "    def to_html(self):\n        params = self.to_escaped_dict()", "    def to_html(self):\n        params = self.to_dict()"))
B('c09_xml_uses_raw_dict', ['C09'], 'R09.c', (E, "        # TODO: generically create xml based on escaped dictionary\n        params = self.to_escaped_dict()", "        params = self.to_dict()"))
B('c09_template_raw_exc_value', ['C09'], 'R09.d', (CE, '<pre class="exception_value">{exc_value}</pre>', '<pre class="exception_value">{exc_value|s}</pre>'))
B('c09_template_raw_local', ['C09'], 'R09.d', (CE, '<tr><td>{$key}</td><td>{$value}</td></tr>', '<tr><td>{$key}</td><td>{$value|s}</td></tr>'))
B('c09_status_class_code', ['C09'], 'R09.a', (E, '                                            status=self.code,', '                                            status=type(self).code,'))
B('c09_json_drops_fields', ['C09'], 'R09.e', (E, "        ret = {'detail': self.detail,\n               'message': self.message,\n               'code': self.code,\n               'error_type': self.error_type}", "        ret = {'detail': self.detail,\n               'message': self.message,\n               'code': self.code}"))
B('c09_render_error_other_table', ['C09'], 'R09.b', (E, '        best_match = request.accept_mimetypes.best_match(MIME_SUPPORT_MAP)\n        _error.adapt(best_match)\n        return _error\n\n    def uncaught_to_response', "        best_match = request.accept_mimetypes.best_match(['text/html', 'application/json'])\n        _error.adapt(best_match)\n        return _error\n\n    def uncaught_to_response"))
B('c09_skip_none_fields', ['C09'], 'R09.c', (E, "            if v is None:\n                ret[k] = ''\n                continue", "            if v is None:\n                continue"))
T('c09_twin_quote_keyword', ['C09'], (E, '                ret[k] = html_escape(v, True)', '                ret[k] = html_escape(v, quote=True)'))

# ------------------------------------------------------------------ C10
B('c10_bind_all_skips_first', ['C10'], 'R10.a', (A, '        for rt in self.app.routes:\n            if isinstance(rt, NullRoute):', '        for rt in self.app.routes[1:]:\n            if isinstance(rt, NullRoute):'))
B('c10_bind_all_reversed', ['C10'], 'R10.a', (A, '        for rt in self.app.routes:\n            if isinstance(rt, NullRoute):', '        for rt in reversed(self.app.routes):\n            if isinstance(rt, NullRoute):'))
B('c10_prefix_not_applied', ['C10'], 'R10.b', (R, '        self.pattern = prefix + route.pattern', '        self.pattern = route.pattern'))
B('c10_prefix_uses_unbound_pattern', ['C10'], 'R10.b', (R, '        self.pattern = prefix + route.pattern', '        self.pattern = prefix + unbound_route.pattern'))
B('c10_prefix_keyword_missing', ['C10'], 'R10.a', (A, "        kwargs['prefix'] = self.prefix\n", ''))
B('c10_render_error_from_route', ['C10'], 'R10.d', (R, "            render_error = getattr(app.error_handler, 'render_error', None)", "            render_error = getattr(route, 'render_error', None) or getattr(app.error_handler, 'render_error', None)"))
B('c10_rebind_render_default_true', ['C10'], 'R10.e', (A, '    def __init__(self, prefix, app, rebind_render=False, inherit_slashes=True):', '    def __init__(self, prefix, app, rebind_render=True, inherit_slashes=True):'))
B('c10_explicit_render_loses', ['C10'], 'R10.e', (R, '        if callable(unbound_route.render):\n            # explicit callable renders always take precedence', '        if callable(unbound_route.render) and not rebind_render:\n            # explicit callable renders always take precedence'))
B('c10_inner_factory_wins', ['C10'], 'R10.e', (R, 'render_factory = first(reversed(render_factory_list), key=callable)', 'render_factory = first(render_factory_list, key=callable)'))
B('c10_app_resources_on_top_at_bind', ['C10', 'C02'], {'C10': 'R10.c', 'C02': 'R02.c'},
  (R, "        self.resources = dict(app_resources)\n        self.resources.update(getattr(route, 'resources', {}))", "        self.resources = dict(getattr(route, 'resources', {}))\n        self.resources.update(app_resources)"))
B('c10_application_is_innermost', ['C10'], 'R10',
  (R, "        self.bound_apps = getattr(route, 'bound_apps', []) + [app]", "        self.bound_apps = [app] + getattr(route, 'bound_apps', [])"))
T('c10_twin_bind_render_reordered', ['C10'], (R, 'bind_render = rebind_render or route.render is _noop_render or not callable(route.render)', 'bind_render = not callable(route.render) or rebind_render or route.render is _noop_render'))

# ------------------------------------------------------------------ C18
B('c18_secret_test_inverted', ['C18'], 'R18.a', (META, "        if 'secret' in key:\n            trunc_val = '[REDACTED]'\n        else:\n            trunc_val = _trunc(repr(val))", "        if 'secret' not in key:\n            trunc_val = '[REDACTED]'\n        else:\n            trunc_val = _trunc(repr(val))"))
B('c18_value_on_both_branches', ['C18'], 'R18.a', (META, "            trunc_val = '[REDACTED]'\n", "            trunc_val = '[REDACTED %d chars]' % len(repr(val))\n"))
B('c18_raw_value_listed', ['C18'], 'R18.a', (META, "        ret.append({'key': key, 'value': trunc_val})", "        ret.append({'key': key, 'value': trunc_val, 'type': type(val).__name__, 'raw': val})"))
B('c18_resources_dumped', ['C18'], 'R18.a', (META, "        return {'resources': get_resource_info(_application)}", "        return {'resources': get_resource_info(_application), 'all': dict(_application.resources)}"))
B('c18_app_in_context', ['C18'], 'R18.a', (META, "        return {'middlewares': get_mw_infos(_application)}", "        return {'middlewares': get_mw_infos(_application), 'app': _application}"))
B('c18_repr_shows_key', ['C18'], 'R18.b', (CK, "        return ('%s(arg_name=%r, cookie_name=%r)'\n                % (cn, self.arg_name, self.cookie_name))", "        return ('%s(arg_name=%r, cookie_name=%r, secret_key=%r)'\n                % (cn, self.arg_name, self.cookie_name, self.secret_key))"))
B('c18_mw_dict_dumped', ['C18'], 'R18.b', (META, "        cur['repr'] = repr(mw)\n", "        cur['repr'] = repr(mw)\n        cur['attrs'] = repr(mw.__dict__)\n"))
B('c18_get_context_unprotected', ['C18'], 'R18.c', (META, "            try:\n                peri_ctx = inject(peri.get_context, kwargs)\n            except Exception as e:\n                peri_ctx = {'exc_content': repr(e)}\n", "            peri_ctx = inject(peri.get_context, kwargs)\n"))
B('c18_section_reraises', ['C18'], 'R18.c', (META, "            except Exception as e:\n                cur['exc_content'] = repr(e)\n", "            except Exception as e:\n                cur['exc_content'] = repr(e)\n                raise\n"))
B('c18_template_raw_value', ['C18'], 'R18.d', ('clastic/meta_resource_section.html', '{.value}', '{.value|s}'))
B('c18_base_raw_title', ['C18'], 'R18.d', ('clastic/meta_base.html', '<h1 class="page_title">{page_title}</h1>', '<h1 class="page_title">{page_title|s}</h1>'))
T('c18_twin_secret_lower', ['C18'], (META, "        if 'secret' in key:", "        if 'secret' in key.lower():"))

# ------------------------------------------------------------------ C06
B('c06_sort_routes', ['C06', 'C11'], {'C06': 'R06.a', 'C11': 'R11.c'},
  (A, '        for br in bound_routes:\n            self.routes.insert(index, br)\n            index += 1\n        return\n',
      '        for br in bound_routes:\n            self.routes.insert(index, br)\n            index += 1\n        self.routes.sort(key=lambda r: -len(r.pattern))\n        return\n'))
B('c06_insert_no_increment', ['C06'], 'R06.a',
  (A, '            self.routes.insert(index, br)\n            index += 1\n', '            self.routes.insert(index, br)\n'))
B('c06_break_on_method_mismatch', ['C06'], 'R06.b',
  (A, '                dispatch_state.update_methods(route.methods)\n                continue\n', '                dispatch_state.update_methods(route.methods)\n                break\n'))
B('c06_forget_update_methods', ['C06'], 'R06.b',
  (A, '                dispatch_state.update_methods(route.methods)\n                continue\n', '                continue\n'))
B('c06_forget_add_exception', ['C06'], 'R06.b',
  (A, '            else:\n                dispatch_state.add_exception(ret)\n', '            else:\n                pass\n'))
B('c06_breaking_falls_through', ['C06'], 'R06.b',
  (A, "            if getattr(ret, 'is_breaking', True):\n                break\n", "            if getattr(ret, 'is_breaking', True) and ret.code >= 500:\n                break\n"))
B('c06_is_breaking_default_false', ['C06'], 'R06.b',
  (A, "            if getattr(ret, 'is_breaking', True):", "            if getattr(ret, 'is_breaking', False):"))
B('c06_first_exception', ['C06'], 'R06.c', (R, '            return _dispatch_state.exceptions[-1]', '            return _dispatch_state.exceptions[0]'))
B('c06_404_before_405', ['C06'], 'R06.c',
  (R, '        if _dispatch_state.exceptions:\n            return _dispatch_state.exceptions[-1]\n        elif _dispatch_state.allowed_methods:',
      '        if _dispatch_state.allowed_methods and not _dispatch_state.exceptions:\n            return _dispatch_state.exceptions[-1]\n        elif _dispatch_state.allowed_methods:'))
B('c06_forget_head', ['C06'], 'R06.d', (R, "            if 'GET' in self.methods:\n                self.methods.add('HEAD')\n", ''))
B('c06_method_no_upper', ['C06'], 'R06.d', (R, '            if method.upper() not in self.methods:', '            if method not in self.methods:'))
B('c06_allow_dropped', ['C06'], 'R06.e',
  (E, "        if self.allowed_methods:\n            # RFC 7231 6.5.5: a 405 response must carry an Allow header\n            self.headers['Allow'] = ', '.join(sorted(self.allowed_methods))\n", ''))
B('c06_allow_constant', ['C06'], 'R06.e', (E, "self.headers['Allow'] = ', '.join(sorted(self.allowed_methods))", "self.headers['Allow'] = 'GET, HEAD'"))
B('c06_execute_before_method', ['C06', 'C07'], {'C06': 'R06.b', 'C07': 'R07.a'},
  (A, '            if not method_allowed:\n                dispatch_state.update_methods(route.methods)\n                continue\n            if route.is_branch:',
      '            if route.is_branch:'))
T('c06_twin_method_positive', ['C06', 'C07', 'C08'],
  (A, '            if not method_allowed:\n                dispatch_state.update_methods(route.methods)\n                continue\n',
      '            if method_allowed:\n                pass\n            else:\n                dispatch_state.update_methods(route.methods)\n                continue\n'))
T('c06_twin_isinstance_positive', ['C06', 'C08'],
  (A, '            if not isinstance(ret, HTTPException):\n                # TODO: verify behavior\n                break\n',
      '            if isinstance(ret, HTTPException):\n                pass\n            else:\n                break\n'))

# ------------------------------------------------------------------ C07
B('c07_unquoted_location', ['C07'], 'R07.b', (A, "parts = [request.url_root.rstrip('/'), url_quote(norm_path),", "parts = [request.url_root.rstrip('/'), norm_path,"))
B('c07_quote_safe_question', ['C07'], 'R07.b', (A, 'url_quote(norm_path)', "url_quote(norm_path, safe='/:?#')"))
B('c07_query_dropped', ['C07'], 'R07.b', (A, "                                 '?', query]", "                                 ]"))
_QDEC = ("                        try:\n                            query = query.decode('utf8')\n                        except UnicodeDecodeError:\n"
         "                            # arbitrary bytes: keep them, percent-encoded\n                            query = url_quote(query, safe=_QUERY_SAFE)\n")
B('c08_strict_query_decode', ['C08'], 'R08.g', (A, _QDEC, "                        query = query.decode('utf8')\n"))
B('c08_strict_decode_in_wsgi_entry', ['C08'], 'R08.g',
  (A, '        request = self.request_type(environ)\n', "        request = self.request_type(environ)\n        request.raw_query = request.query_string.decode('ascii')\n"))
B('c08_query_handler_too_narrow', ['C08'], 'R08.g', (A, '                        except UnicodeDecodeError:\n', '                        except UnicodeEncodeError:\n'))
B('c07_query_requoted', ['C07'], 'R07.b', (A, 'query = url_quote(query, safe=_QUERY_SAFE)', "query = url_quote(query, safe='/')"))
B('c07_query_replaced_by_args', ['C07'], 'R07.b', (A, '                        query = request.query_string\n', "                        query = '&'.join(sorted(request.args)).encode('utf8')\n"))
T('c08_twin_query_decode_replace', ['C08'],(A, _QDEC, "                        query = query.decode('utf8', 'replace')\n"))
T('c08_twin_query_handler_valueerror', ['C08', 'C07'], (A, '                        except UnicodeDecodeError:\n', '                        except ValueError:\n'))
T('c08_twin_query_helper_inline', ['C08', 'C07'],
  (A, "                        query = request.query_string\n" + _QDEC,
      "                        try:\n                            query = request.query_string.decode('utf8')\n                        except UnicodeError:\n"
      "                            query = url_quote(request.query_string, safe=_QUERY_SAFE)\n"))
B('c07_redirect_in_any_mode', ['C07'], 'R07.a', (A, '                    if route.slash_mode == S_REDIRECT:', '                    if route.slash_mode != S_STRICT:'))
B('c07_redirect_before_method', ['C07', 'C06'], {'C07': 'R07.a', 'C06': 'R06.b'},
  (A, '            method_allowed = route.match_method(method)\n            if not method_allowed:\n                dispatch_state.update_methods(route.methods)\n                continue\n            if route.is_branch:',
      '            if route.is_branch:'),
  (A, '            try:\n                ret = route.execute(**params)',
      '            method_allowed = route.match_method(method)\n            if not method_allowed:\n                dispatch_state.update_methods(route.methods)\n                continue\n            try:\n                ret = route.execute(**params)'))
B('c07_strict_executes', ['C07'], 'R07.a',
  (A, '                        dispatch_state.add_exception(nf_exc)\n                        continue\n', '                        dispatch_state.add_exception(nf_exc)\n'))
B('c07_null_route_inherits', ['C07'], 'R07.c', (R, "        kw['inherit_slashes'] = False\n", "        kw['inherit_slashes'] = True\n"))
B('c07_mode_swapped', ['C07', 'C10'], {'C07': 'R07.c', 'C10': 'R10'},
  (R, 'self.slash_mode = app.slash_mode if inherit_slashes else route.slash_mode', 'self.slash_mode = route.slash_mode if inherit_slashes else app.slash_mode'))
B('c07_kwarg_renamed', ['C07', 'C10'], {'C07': 'R07.c', 'C10': 'R10.e'},
  (A, "        kwargs.setdefault('inherit_slashes', self.inherit_slashes)\n", "        kwargs.setdefault('inherit_slash', self.inherit_slashes)\n"))
B('c07_redirect_leaf', ['C07'], 'R07.a',
  (A, '            if route.is_branch:\n                norm_path = normalize_path(url_path, route.is_branch)', '            if True:\n                norm_path = normalize_path(url_path, route.is_branch)'))
T('c07_twin_quote_from_urllib', ['C07'], (A, 'url_quote(norm_path)', 'quote(norm_path)'))
T('c07_twin_concat', ['C07'],
  (A, "                        parts = [request.url_root.rstrip('/'), url_quote(norm_path),\n                                 '?', query]\n                        return redirect(''.join(parts))",
      "                        location = request.url_root.rstrip('/') + url_quote(norm_path) + '?' + query\n                        return redirect(location)"))

# ------------------------------------------------------------------ C08
B('c08_execute_outside_try', ['C08'], 'R08.a',
  (A, '            try:\n                ret = route.execute(**params)\n                if not isinstance(ret, BaseResponse):',
      '            ret = route.execute(**params)\n            try:\n                if not isinstance(ret, BaseResponse):'))
B('c08_narrow_except', ['C08'], 'R08.a', (A, '            except Exception as exc:\n                ret = exc', '            except (ValueError, TypeError, KeyError) as exc:\n                ret = exc'))
B('c08_no_typeerror_for_nonresponse', ['C08'], 'R08.b',
  (A, "                if not isinstance(ret, BaseResponse):\n                    msg = 'expected Response, received %r' % type(ret)\n                    raise TypeError(msg)\n", '                pass\n'))
B('c08_typeerror_outside', ['C08'], 'R08.b',
  (A, "                ret = route.execute(**params)\n                if not isinstance(ret, BaseResponse):\n                    msg = 'expected Response, received %r' % type(ret)\n                    raise TypeError(msg)\n            except RerouteWSGI:\n                raise\n            except Exception as exc:\n                ret = exc\n                if not isinstance(ret, HTTPException):\n                    uncaught_params = dict(params, _route=route, _error=ret)\n                    ret = err_handler.uncaught_to_response(**uncaught_params)\n",
      "                ret = route.execute(**params)\n            except RerouteWSGI:\n                raise\n            except Exception as exc:\n                ret = exc\n                if not isinstance(ret, HTTPException):\n                    uncaught_params = dict(params, _route=route, _error=ret)\n                    ret = err_handler.uncaught_to_response(**uncaught_params)\n            if not isinstance(ret, BaseResponse):\n                msg = 'expected Response, received %r' % type(ret)\n                raise TypeError(msg)\n"))
B('c08_always_reraise', ['C08'], 'R08.c', (E, '        if self.reraise_uncaught:\n            raise\n        eh = _application.error_handler', '        if True:\n            raise\n        eh = _application.error_handler'))
B('c08_no_render_fallback', ['C08'], 'R08.a',
  (A, '            try:\n                ret = ret.source_route.execute_error(**error_params)\n            except Exception:\n                ret = default_render_error(**error_params)\n',
      '            ret = ret.source_route.execute_error(**error_params)\n'))
B('c08_cache_params_on_route', ['C08', 'C12'], {'C08': 'R08.d', 'C12': 'R12'},
  (A, '            request.path_params = path_params\n', '            request.path_params = path_params\n            route.last_path_params = path_params\n'))
B('c08_cache_request_on_app', ['C08', 'C12'], {'C08': 'R08.d', 'C12': 'R12.a'},
  (A, '        dispatch_state = DispatchState()\n', '        dispatch_state = DispatchState()\n        self._last_request = request\n'))
B('c08_reroute_swallowed', ['C08'], 'R08.a', (A, '            except RerouteWSGI:\n                raise\n            except Exception as exc:', '            except Exception as exc:'))
B('c08_error_handler_remembers', ['C08', 'C12'], {'C08': 'R08.d', 'C12': 'R12.a'},
  (E, '        eh = _application.error_handler\n        exc_info = eh.exc_info_type.from_current()\n        return eh.server_error_type(repr(exc_info),',
      '        eh = _application.error_handler\n        exc_info = eh.exc_info_type.from_current()\n        self.last_exc_info = exc_info\n        return eh.server_error_type(repr(exc_info),'))
T('c08_twin_base_exception', ['C08'], (A, '            except Exception as exc:\n                ret = exc', '            except BaseException as exc:\n                ret = exc'))

# ------------------------------------------------------------------ C11 / C12 / C13
B('c11_bind_mutates_route', ['C11'], 'R11.a',
  (R, "        self.middlewares = tuple(merge_middlewares(getattr(route, 'middlewares', []), app_mws))",
      "        route.middlewares.extend(m for m in app_mws if m not in route.middlewares)\n        self.middlewares = tuple(route.middlewares)"))
B('c11_bind_updates_app_resources', ['C11'], 'R11.a',
  (R, "        self.resources = dict(app_resources)\n        self.resources.update(getattr(route, 'resources', {}))",
      "        self.resources = app_resources\n        self.resources.update(getattr(route, 'resources', {}))"))
B('c11_insert_inside_binding_loop', ['C11'], 'R11',
  (A, '        for rt in self.app.routes:\n            if isinstance(rt, NullRoute):\n                continue\n            bound_rt = rt.bind(app, **kwargs)\n            ret.append(bound_rt)\n',
      '        for rt in self.app.routes:\n            if isinstance(rt, NullRoute):\n                continue\n            bound_rt = rt.bind(app, **kwargs)\n            app.routes.append(bound_rt)\n'))
B('c11_add_binds_lazily', ['C11', 'C01'], {'C11': 'R11.b', 'C01': 'R01.a'},
  (A, '        if callable(getattr(rf, \'bind_all\', None)):\n            bound_routes = rf.bind_all(self, **kwargs)\n        else:\n            bound_routes = [rf.bind(self, **kwargs)]\n        for br in bound_routes:\n            self.routes.insert(index, br)\n            index += 1\n',
      '        for rt in list(rf.iter_routes()):\n            self.routes.insert(index, rt.bind(self, **kwargs))\n            index += 1\n'))
B('c11_module_cache', ['C11', 'C12'], {'C11': 'R11.d', 'C12': 'R12.a'},
  (A, '_REQ_ID_ITER = itertools.count()\n', '_REQ_ID_ITER = itertools.count()\n_LAST_PARAMS = {}\n'),
  (A, '            request.path_params = path_params\n', '            request.path_params = path_params\n            _LAST_PARAMS[url_path] = path_params\n'))
B('c11_route_keeps_caller_list', ['C11'], 'R11.a',
  (R, "        self.middlewares = list(kwargs.pop('middlewares', []))", "        self.middlewares = kwargs.pop('middlewares', [])"))
B('c11_methods_mutated_at_bind', ['C11'], 'R11.a',
  (R, '        self.methods = route.methods\n', "        self.methods = route.methods\n        if self.methods:\n            self.methods.add('OPTIONS')\n"))
B('c11_register_converter_at_bind', ['C11'], 'R11.d',
  (R, '        self.regex, self.converters = _compile_path_pattern(self.pattern,', "        _register_converter('path', unicode, _STR_PATTERN)\n        self.regex, self.converters = _compile_path_pattern(self.pattern,"))
T('c11_twin_dict_copy', ['C11', 'C02', 'C04'],
  (R, "        self.resources = dict(app_resources)\n        self.resources.update(getattr(route, 'resources', {}))",
      "        self.resources = dict(app_resources)\n        self.resources.update(dict(getattr(route, 'resources', {})))"))

B('c12_counter_reset', ['C12'], 'R12.c',
  (A, '            request.request_id = next(_REQ_ID_ITER)\n', '            request.request_id = next(itertools.count())\n'))
B('c12_route_remembers_request', ['C12'], 'R12',
  (R, "        injectables.update(self.resources)\n        injectables.update(kwargs)\n        return inject(self._execute", "        self._current_request = request\n        injectables.update(self.resources)\n        injectables.update(kwargs)\n        return inject(self._execute"))
B('c12_gzip_remembers', ['C12'], 'R12.d', (GZ, '        resp = next()\n', '        resp = next()\n        self.last_response = resp\n'))
B('c12_generated_global', ['C12'], 'R12.a', (C, "    __traceback_hide__ = True\n    context = endpoint({endpoint_args})", "    global context\n    context = endpoint({endpoint_args})"))
B('c12_match_path_caches', ['C12', 'C08'], {'C12': 'R12', 'C08': 'R08.d'},
  (R, "        groups = match.groupdict()\n", "        groups = match.groupdict()\n        self._last_groups = groups\n"))

B('c13_wrap_order_not_reversed', ['C13'], 'R13.b', (A, '        for mw in reversed(all_mws):', '        for mw in all_mws:'))
B('c13_environ_copy', ['C13'], 'R13.a', (A, '            return rre.wsgi_app(environ, start_response)', '            return rre.wsgi_app(dict(environ), start_response)'))
B('c13_environ_written', ['C13'], 'R13.a', (A, '        request = self.request_type(environ)\n', "        request = self.request_type(environ)\n        environ['clastic.app'] = self\n"))
B('c13_start_response_called', ['C13'], 'R13.a',
  (A, '        return response(environ, start_response)', "        start_response('200 OK', [])\n        return response(environ, start_response)"))
B('c13_error_handler_outermost', ['C13'], 'R13.b',
  (A, '        self.set_error_handler(error_handler)\n\n        routes = routes or []', '        routes = routes or []'),
  (A, "            self._dispatch_wsgi = _safe_wrap_wsgi('middleware', mw, self._dispatch_wsgi)\n        return\n",
      "            self._dispatch_wsgi = _safe_wrap_wsgi('middleware', mw, self._dispatch_wsgi)\n        self.set_error_handler(error_handler)\n        return\n"))
B('c13_dedupe_keeps_last', ['C13'], 'R13.b',
  (A, '            if mw not in all_mw:\n                all_mw.append(mw)\n', '            if mw in all_mw:\n                all_mw.remove(mw)\n            all_mw.append(mw)\n'))
B('c13_file_not_wrapped', ['C13', 'C14'], {'C13': 'R13.c', 'C14': 'R14.d'}, (ST, '    resp.response = file_wrapper(file_obj)\n', '    resp.response = [file_obj.read()]\n'))
B('c13_call_bypasses_stack', ['C13'], 'R13.a',
  (A, '    def __call__(self, environ, start_response):\n        return self._dispatch_wsgi(environ, start_response)',
      '    def __call__(self, environ, start_response):\n        return Application._dispatch_wsgi(self, environ, start_response)'))
T('c13_twin_rename_params', ['C13'],
  (A, '    def __call__(self, environ, start_response):\n        return self._dispatch_wsgi(environ, start_response)',
      '    def __call__(self, env, start):\n        return self._dispatch_wsgi(env, start)'))

# ------------------------------------------------------------------ variants distilled from the sub-agents' seeded changes
B('s_update_methods_adopts_route_set', ['C06', 'C08', 'C12'], {'C06': 'R06.d', 'C08': 'R08.d', 'C12': 'R12.a'},
  (A, '        if methods:\n            self.allowed_methods.update(methods)', '        if methods:\n            if not self.allowed_methods:\n                self.allowed_methods = methods\n            else:\n                self.allowed_methods.update(methods)'))
B('s_shared_base_params', ['C12', 'C08'], {'C12': 'R12.a', 'C08': 'R08.d'},
  (A, '        base_params = dict(self.resources,\n                           request=request,\n                           _application=self,\n                           _dispatch_state=dispatch_state)\n',
      '        base_params = self._base_params\n        base_params.update(request=request, _dispatch_state=dispatch_state)\n'))
B('s_head_drops_file_wrapper', ['C13'], 'R13.c',
  (ST, "                   file_wrapper=request.environ.get('wsgi.file_wrapper',\n                                                    FileWrapper))\n        return resp\n\n\nclass StaticApplication",
       "                   file_wrapper=request.environ.get('wsgi.file_wrapper',\n                                                    FileWrapper))\n        if request.method == 'HEAD':\n            resp.response = []\n        return resp\n\n\nclass StaticApplication"))
B('s_none_default_dereferenced', ['C15'], 'R15.a',
  (STATS, "            resp_mime_type = getattr(e, 'content_type', '').partition(';')[0]", "            resp_mime_type = getattr(e, 'content_type', None).partition(';')[0] or ''"))
B('s_gzip_membership_not_quality', ['C15'], 'R15.d',
  (GZ, "        if resp.content_encoding or not request.accept_encodings['gzip']:", "        if resp.content_encoding or 'gzip' not in request.accept_encodings:"))
B('s_jsonp_encoder_without_dev_mode', ['C17'], 'R17.d',
  (RS, '        self.qp_name = qp_name\n        super(JSONPRender, self).__init__(*a, **kw)\n',
       '        self.qp_name = qp_name\n        super(JSONPRender, self).__init__(*a, **kw)\n        self.json_encoder = ClasticJSONEncoder(encoding=self.encoding, indent=None)\n'))
B('s_render_error_skips_adapt', ['C09'], 'R09.b',
  (E, '        best_match = request.accept_mimetypes.best_match(MIME_SUPPORT_MAP)\n        _error.adapt(best_match)\n        return _error\n\n    def uncaught_to_response',
      '        best_match = request.accept_mimetypes.best_match(MIME_SUPPORT_MAP)\n        if best_match is None:\n            return _error\n        _error.adapt(best_match)\n        return _error\n\n    def uncaught_to_response'))
B('s_bind_all_generator', ['C11', 'C01'], {'C11': 'R11.b', 'C01': 'R01.a'},
  (A, '            bound_rt = rt.bind(app, **kwargs)\n            ret.append(bound_rt)\n\n        return ret', '            yield rt.bind(app, **kwargs)'))
B('s_format_injection', ['C08', 'C09'], {'C08': 'R08.e', 'C09': 'R09.c'},
  (E, "        if params['detail']:\n            lines.append('<p>{detail}</p>')", "        if params['detail']:\n            lines.append('<p>%s</p>' % params['detail'])"))
B('s_first_last_locals', ['C17'], 'R17.b',
  (RS, "        elif bytestr[:1] == b'{' and bytestr[-1:] == b'}':\n            return True\n        elif bytestr[:1] == b'[' and bytestr[-1:] == b']':",
       "        first, last = bytestr[0], bytestr[-1]\n        if first == b'{' and last == b'}':\n            return True\n        elif first == b'[' and last == b']':"))
B('s_index_or_len', ['C06'], 'R06.a',
  (A, '        if index is None:\n            index = len(self.routes)', '        index = index or len(self.routes)'))
B('s_normalize_single_pass', ['C07'], 'R07.d',
  (R, "    ret = [x for x in path.split('/') if x]\n    if not ret:\n        return '/'\n    ret = [''] + ret\n    if is_branch:\n        ret.append('')\n    return '/'.join(ret)",
      "    path = path.replace('//', '/').strip('/')\n    if not path:\n        return '/'\n    return '/' + path + ('/' if is_branch else '')"))
T('s_twin_describe_then_count', ['C19'],
  (STATS, "        desc_dict['count'] = hits.total_count  # need to account for reservoir count", "        desc_dict.update(count=hits.total_count)  # need to account for reservoir count"))
B('s_count_overwritten_by_describe', ['C19'], 'R19.b',
  (STATS, "        desc_dict['count'] = hits.total_count  # need to account for reservoir count\n", ''),
  (STATS, '        cur.update(desc_dict)', "        cur['count'] = hits.total_count\n        cur.update(desc_dict)"))

# ------------------------------------------------------------------ round b of seeded changes, distilled
B('s2_match_path_memo', ['C02', 'C12', 'C08'], {'C02': 'R02.d', 'C12': 'R12', 'C08': 'R08.d'},
  (R, "        ret = {}\n        match = self.regex.match(path)\n        if not match:\n            return None\n",
      "        cached = self.__dict__.setdefault('_match_cache', {}).get(path)\n        if cached is not None:\n            return dict(cached)\n        ret = {}\n        match = self.regex.match(path)\n        if not match:\n            return None\n"),
  (R, "        except (KeyError, TypeError, ValueError):\n            return None\n        return ret", "        except (KeyError, TypeError, ValueError):\n            return None\n        self._match_cache[path] = ret\n        return ret"))
B('s2_eq_isinstance', ['C03', 'C13', 'C10'], {'C03': 'R03.d', 'C13': 'R13.b', 'C10': 'R10.c'},
  (C, '        return type(self) == type(other)', '        return isinstance(self, type(other))'))
B('s2_regex_reused_on_rebind', ['C05', 'C07', 'C10'], {'C05': 'R05.d', 'C07': 'R07.c', 'C10': 'R10.c'},
  (R, '        self.regex, self.converters = _compile_path_pattern(self.pattern,\n                                                            self.slash_mode)\n',
      "        if not prefix and hasattr(route, 'regex'):\n            self.regex, self.converters = route.regex, route.converters\n        else:\n            self.regex, self.converters = _compile_path_pattern(self.pattern,\n                                                                self.slash_mode)\n"))
B('s2_lazy_converters', ['C05', 'C08'], {'C05': 'R05.d', 'C08': 'R08.f'},
  (R, '        try:\n            for conv_name, conv in self.converters.items():\n                ret[conv_name] = conv(groups[conv_name])\n        except (KeyError, TypeError, ValueError):\n            return None\n        return ret',
      '        try:\n            converted = ((name, conv(groups[name])) for name, conv in self.converters.items())\n        except (KeyError, TypeError, ValueError):\n            return None\n        ret.update(converted)\n        return ret'))
B('s2_escape_type_test', ['C08', 'C09'], {'C08': 'R08.e', 'C09': 'R09.c'},
  (E, '            try:\n                ret[k] = html_escape(v, True)\n            except Exception as e:\n                ret[k] = html_escape(repr(v), True)',
      '            if not isinstance(v, (bytes, unicode)):\n                v = repr(v)\n            ret[k] = html_escape(v, True)'))
B('s2_add_extend_or_insert', ['C10', 'C06', 'C11'], {'C10': 'R10.a', 'C06': 'R06.a', 'C11': 'R11'},
  (A, '        for br in bound_routes:\n            self.routes.insert(index, br)\n            index += 1\n        return\n',
      '        if index is None:\n            self.routes.extend(bound_routes)\n            return\n        for br in bound_routes:\n            self.routes.insert(index, br)\n        return\n'),
  (A, '        if index is None:\n            index = len(self.routes)\n        rf = cast_to_route_factory(entry)', '        rf = cast_to_route_factory(entry)'))
B('s2_find_file_exists', ['C14'], 'R14.a', (ST, '        if isfile(full_path):\n            return full_path', '        if os.path.exists(full_path):\n            return full_path'))
B('s2_fstat_mtime', ['C14'], 'R14.d',
  (ST, "        file_obj = open(path, 'rb')\n        mtime = get_file_mtime(path)\n        fsize = os.path.getsize(path)",
       "        file_obj = open(path, 'rb')\n        st_ = os.fstat(file_obj.fileno())\n        mtime = datetime.utcfromtimestamp(int(st_.st_mtime))\n        fsize = st_.st_size"))
B('s2_httpexception_is_response', ['C15'], 'R15.a',
  (E, 'class HTTPException(BaseResponse, Exception):', 'class HTTPException(Response, Exception):'),
  (E, 'from werkzeug.wrappers import BaseResponse\n', 'from werkzeug.wrappers import BaseResponse, Response\n'))
B('s2_profile_reads_form', ['C15'], 'R15',
  (PF, '        if not request.args.get(self.get_param_name):\n            return next()', '        if not request.values.get(self.get_param_name):\n            return next()'))
B('s2_codec_mismatch', ['C16'], 'R16.b', (CK, "        ret = b''.join(base64.b64encode(ret).splitlines()).strip()", "        ret = b''.join(base64.urlsafe_b64encode(ret).splitlines()).strip()"))
B('s2_html_before_json', ['C17'], 'R17.c',
  (RS, "            if self._guess_json(context):\n                return Response(context, mimetype=\"application/json\")\n            elif b'<html' in context[:168]:\n                # based on the longest DOCTYPE I found in a brief search\n                return Response(context, mimetype=\"text/html\")\n            else:\n                return Response(context, mimetype=\"text/plain\")",
       "            if b'<html' in context[:168]:\n                mimetype = \"text/html\"\n            elif self._guess_json(context):\n                mimetype = \"application/json\"\n            else:\n                mimetype = \"text/plain\"\n            return Response(context, mimetype=mimetype)"))
T('s2_twin_label_variable', ['C17'],
  (RS, "            if self._guess_json(context):\n                return Response(context, mimetype=\"application/json\")\n            elif b'<html' in context[:168]:\n                # based on the longest DOCTYPE I found in a brief search\n                return Response(context, mimetype=\"text/html\")\n            else:\n                return Response(context, mimetype=\"text/plain\")",
       "            if self._guess_json(context):\n                mimetype = \"application/json\"\n            elif b'<html' in context[:168]:\n                mimetype = \"text/html\"\n            else:\n                mimetype = \"text/plain\"\n            return Response(context, mimetype=mimetype)"))
B('s2_encoder_decodes_bytes', ['C17'], 'R17.d',
  (RS, '    def default(self, obj):\n        if isinstance(obj, Mapping):', "    def default(self, obj):\n        if isinstance(obj, (bytes, bytearray)):\n            return bytes(obj).decode('utf8')\n        if isinstance(obj, Mapping):"))
B('s2_key_truncated_before_test', ['C18'], 'R18.a',
  (META, "    for key, val in _application.resources.items():\n        if 'secret' in key:", "    for key, val in _application.resources.items():\n        key = _trunc(key, 40)\n        if 'secret' in key:"))
B('s2_default_value_in_context', ['C18'], 'R18.a',
  (META, "            if arg in r_defaults:\n                source = 'default'\n", "            if arg in r_defaults:\n                source = 'default'\n                arg_src['default'] = r_defaults[arg]\n"))
B('s2_cap_in_true_none', ['C19'], 'R19.c', (STATS, '        if cap is True:', '        if cap in (True, None):'))
B('s2_captured_route_hits', ['C19'], 'R19.a',
  (STATS, '        start_time = time.time()\n        try:\n            resp = next()', '        start_time = time.time()\n        route_hits = self.route_hits[_route]\n        try:\n            resp = next()'),
  (STATS, '            self.route_hits[_route][resp_status].add(hit)', '            route_hits[resp_status].add(hit)'))
B('s2_filter_mutates_caller_list', ['C20'], 'R20.b',
  (FL, '    main_lib_dir = os.path.dirname(ast.__file__)\n    ret = [fn for fn in ret if not fn.startswith(main_lib_dir)]\n', '    main_lib_dir = os.path.dirname(ast.__file__)\n    for fn in list(ret):\n        if fn.startswith(main_lib_dir):\n            ret.remove(fn)\n'))
B('s2_static_valueerror_breaking', ['C20', 'C14'], {'C20': 'R20.b', 'C14': 'R14.b'},
  (ST, '        except (ValueError, IOError, OSError):\n            raise Forbidden(is_breaking=False)\n        bfr = build_file_response',
       '        except ValueError:\n            raise Forbidden()\n        except (IOError, OSError):\n            raise Forbidden(is_breaking=False)\n        bfr = build_file_response'))
B('s2_recursion_before_filter', ['C01', 'C02'], {'C01': 'R01.f', 'C02': 'R02.b'},
  (S, "    inner_args = ', '.join(['%s=%s' % kv for kv in inner_arg_items\n                           if kv[0] in params_sofar])\n", ''),
  (S, '    body_str = build_chain_str(funcs[1:], params[1:], inner_name, params_sofar, level + 1)\n',
      "    body_str = build_chain_str(funcs[1:], params[1:], inner_name, params_sofar, level + 1)\n    inner_args = ', '.join(['%s=%s' % kv for kv in inner_arg_items\n                           if kv[0] in params_sofar])\n"))
B('s2_method_test_before_path', ['C06'], 'R06.b',
  (A, '            path_params = route.match_path(url_path)\n            if path_params is None:\n                continue\n', '            if dispatch_state.allowed_methods and not route.match_method(method):\n                continue\n            path_params = route.match_path(url_path)\n            if path_params is None:\n                continue\n'))
B('s2_head_decided_before_upper', ['C06'], 'R06.d',
  (R, "            if 'GET' in self.methods:\n                self.methods.add('HEAD')\n", ''),
  (R, '        self.methods = methods and set([m.upper() for m in methods])\n', "        self.methods = methods and set([m.upper() for m in methods])\n        if methods and 'GET' in methods:\n            self.methods.add('HEAD')\n"))
B('s2_query_reencoded', ['C07'], 'R07.b',
  (A, "                                 '?', query]", "                                 '?', url_encode(request.args)]"))
B('s2_execute_error_layers', ['C10', 'C02'], {'C10': 'R10.c', 'C02': 'R02.c'},
  (R, "                       '_application': self.bound_apps[-1]}\n        injectables.update(self.resources)\n        injectables.update(kwargs)\n        return inject(self.render_error, injectables)",
      "                       '_application': self.bound_apps[-1]}\n        merged = dict(kwargs)\n        merged.update(self.resources)\n        merged.update(injectables)\n        return inject(self.render_error, merged)"))
B('s2_merge_aliases_new', ['C11', 'C03'], {'C11': 'R11.a', 'C03': 'R03.d'}, (C, '    merged = list(new)\n', '    merged = new if isinstance(new, list) else list(new)\n'))
B('s2_mna_cached', ['C12'], 'R12',
  (R, '            MNAType = err_handler.method_not_allowed_type\n            return MNAType(allowed_methods=_dispatch_state.allowed_methods)',
      "            MNAType = err_handler.method_not_allowed_type\n            key = frozenset(_dispatch_state.allowed_methods)\n            if key not in self._mna_cache:\n                self._mna_cache[key] = MNAType(allowed_methods=_dispatch_state.allowed_methods)\n            return self._mna_cache[key]"))
B('s2_last_exc_info_on_handler', ['C12', 'C08'], {'C12': 'R12', 'C08': 'R08.d'},
  (E, '        exc_info = eh.exc_info_type.from_current()\n        return eh.server_error_type(repr(exc_info),\n                                    exc_info=exc_info,', '        eh.last_exc_info = eh.exc_info_type.from_current()\n        exc_info = eh.last_exc_info\n        return eh.server_error_type(repr(exc_info),\n                                    exc_info=exc_info,'))
B('s2_reroute_strips_environ', ['C13'], 'R13.a',
  (A, '        except RerouteWSGI as rre:\n            return rre.wsgi_app(environ, start_response)', "        except RerouteWSGI as rre:\n            for k in [k for k in environ if k.startswith('werkzeug.')]:\n                del environ[k]\n            return rre.wsgi_app(environ, start_response)"))
B('s2_br_in_escaped_detail', ['C09'], 'R09.c',
  (E, '            try:\n                ret[k] = html_escape(v, True)\n', "            try:\n                ret[k] = html_escape(v, True).replace('\\n', '<br>\\n')\n"))

# ------------------------------------------------------------------ robustness twins: whole-file re-generation and renames
ALLP = ['C%02d' % i for i in range(1, 21)]
T('t_unparse_sinter', ['C01', 'C02', 'C03', 'C04', 'C11', 'C12'], (S, '__UNPARSE__', ''))
T('t_unparse_core', ['C01', 'C02', 'C03', 'C04', 'C12', 'C15'], (C, '__UNPARSE__', ''))
T('t_unparse_route', ['C01', 'C02', 'C03', 'C04', 'C05', 'C06', 'C07', 'C08', 'C10', 'C11', 'C12'], (R, '__UNPARSE__', ''))
T('t_unparse_application', ['C01', 'C02', 'C04', 'C06', 'C07', 'C08', 'C09', 'C10', 'C11', 'C12', 'C13'], (A, '__UNPARSE__', ''))
T('t_unparse_errors', ['C06', 'C08', 'C09', 'C12', 'C17'], (E, '__UNPARSE__', ''))
T('t_unparse_static', ['C13', 'C14'], (ST, '__UNPARSE__', ''))
T('t_unparse_mw', ['C15', 'C16', 'C19', 'C12', 'C18'], (GZ, '__UNPARSE__', ''), (STATS, '__UNPARSE__', ''), (CK, '__UNPARSE__', ''), (CC, '__UNPARSE__', ''), (PF, '__UNPARSE__', ''))
T('t_unparse_render_flaw_meta', ['C17', 'C20', 'C18', 'C09'], (RS, '__UNPARSE__', ''), (FL, '__UNPARSE__', ''), (META, '__UNPARSE__', ''), (CE, '__UNPARSE__', ''))
T('t_rename_ret_in_dispatch', ['C06', 'C07', 'C08', 'C12', 'C02'], (A, r're:\bret\b', 'result'))
T('t_rename_dispatch_state', ['C06', 'C07', 'C08', 'C12', 'C02', 'C04'], (A, r're:\bdispatch_state\b', 'dstate'))
T('t_rename_route_loop_var', ['C06', 'C07', 'C08', 'C12', 'C02'], (A, r're:(?<![.\w\'"])route\b', 'rt_'))
T('t_rename_chain_locals', ['C01', 'C02', 'C03'], (S, r're:\bprovided_sofar\b', 'seen'), (S, r're:\boptional_sofar\b', 'maybe'))
T('t_rename_mw_chain_locals', ['C01', 'C02', 'C03', 'C04'], (C, r're:\bep_avail\b', 'endpoint_available'), (C, r're:\brn_unres\b', 'render_missing'))
T('t_rename_static_locals', ['C13', 'C14'], (ST, r're:\brel_path\b', 'normalized'), (ST, r're:\bfile_obj\b', 'fh'), (ST, r're:\bfull_path\b', 'found'),
  (ST, r're:\bfsize\b', 'nbytes'))
T('t_rename_static_resp', ['C13', 'C14'], (ST, r're:\bresp\b', 'file_response'), (ST, r're:\bbfr\b', 'build'))
T('t_rename_stats_locals', ['C19', 'C15', 'C12'], (STATS, r're:\bresp\b', 'response'), (STATS, r're:\bhit\b', 'h'), (STATS, r're:\bresp_status\b', 'status_key'),
  (STATS, r're:\bidx\b', 'slot'))
T('t_rename_cookie_locals', ['C16', 'C15'], (CK, r're:(?<![.\w])cookie\b(?=[\s\[.,)=}:])(?! import)', 'ck'), (CK, r're:\bsave_cookie_kwargs\b', 'save_kw'))
T('t_rename_errors_locals', ['C09', 'C06', 'C08'], (E, r're:\bfmt_name\b', 'fmt'), (E, r're:\b_method\b', 'serializer'), (E, r're:\bparams\b', 'fields'))
T('t_rename_boundroute_locals', ['C01', 'C02', 'C03', 'C04', 'C07', 'C10', 'C11'], (R, r're:\bapp_mws\b', 'outer_mws'), (R, r're:\bapp_resources\b', 'outer_res'),
  (R, r're:\bsrc_provides_map\b', 'sources'), (R, r're:\bprovided\b', 'avail'))
T('t_rename_inject_locals', ['C01', 'C02'], (S, r're:\ball_kwargs\b', 'merged_kw'), (S, r're:\binner_arg_items\b', 'pairs'), (S, r're:\bouter_arg_str\b', 'sig'))
T('t_rename_meta_locals', ['C18'], (META, r're:\btrunc_val\b', 'shown'), (META, r're:\bperi_ctx\b', 'pctx'))
T('t_rename_flaw_locals', ['C20'], (FL, r're:\bparsed_tb\b', 'ptb'), (FL, r're:\bnon_site_files\b', 'own_files'))
T('t_rename_render_locals', ['C17'], (RS, r're:\bresp_mime\b', 'mime'), (RS, r're:\breq_format\b', 'fmt'))
T('t_rename_compile_pattern_locals', ['C05', 'C07', 'C10'], (R, r're:\bprocessed\b', 'parts_out'), (R, r're:\bcur_patt\b', 'patt'), (R, r're:\bcur_conv\b', 'conv'),
  (R, r're:\bvar_converter_map\b', 'convs'))
T('t_rename_gzip_locals', ['C15'], (GZ, r're:\bcomp_content\b', 'packed'), (GZ, r're:\bresp\b', 'response'))
T('t_rename_app_add_locals', ['C01', 'C06', 'C10', 'C11'], (A, r're:\bbound_routes\b', 'new_routes'), (A, r're:\bbr\b', 'bound'), (A, r're:\brf\b', 'factory'))
T('t_logging_added', ['C06', 'C07', 'C08', 'C12', 'C13'],
  (A, '        request = self.request_type(environ)\n', '        request = self.request_type(environ)\n        log = getattr(self, "_log", None)\n'),
  (A, '        dispatch_state = DispatchState()\n', '        dispatch_state = DispatchState()\n        started = None\n'))
T('t_docstrings_added', ['C01', 'C02', 'C03', 'C05', 'C10', 'C11'],
  (S, 'def make_chain(funcs, provides, final_func, preprovided, inner_name):\n', 'def make_chain(funcs, provides, final_func, preprovided, inner_name):\n    """Build one chain."""\n'),
  (R, 'def build_converter(converter, optional=False, multi=False):\n', 'def build_converter(converter, optional=False, multi=False):\n    """Wrap a converter."""\n'))
T('t_guard_as_positive_if', ['C14'],
  (ST, "        if rel_path.startswith('/'):\n            raise ValueError('expected relative path, not %r' % path)\n", "        if not rel_path.startswith('/'):\n            pass\n        else:\n            raise ValueError('expected relative path, not %r' % path)\n"))
T('t_reservoir_early_return_swapped', ['C19'],
  (STATS, '        if len(self._data) < self._cap:\n            # not (yet, or after an enlarging resize, no longer) full\n            self._data.append(val)\n            return\n\n        idx = fast_randint(0, self._total_count)\n        if idx < self._cap:\n            self._data[idx] = val\n        return',
          '        if len(self._data) >= self._cap:\n            idx = fast_randint(0, self._total_count)\n            if idx < self._cap:\n                self._data[idx] = val\n        else:\n            self._data.append(val)\n        return'))
T('t_cookie_guard_in_middleware', ['C16'],
  (CK, "        try:\n            return super(cls, JSONCookie).unserialize(string, secret_key)\n        except Exception:\n            # malformed client data (e.g., a signature that is not\n            # valid base64): treat like any other invalid cookie\n            return cls((), secret_key, False)",
       "        try:\n            return super(cls, JSONCookie).unserialize(string, secret_key)\n        except ValueError:\n            return cls(None, secret_key, False)"))

# ------------------------------------------------------------------ C14
B('c14_join_raw_path', ['C14'], 'R14.a', (ST, 'full_path = pjoin(sr, rel_path)', 'full_path = pjoin(sr, path)'))
B('c14_drop_pardir_test', ['C14'], 'R14.a',
  (ST, "        if rel_path.startswith(os.pardir):\n            raise ValueError('attempted to access beyond root directory')\n", ''))
B('c14_test_before_normpath', ['C14'], 'R14.a', (ST, "        if rel_path.startswith('/'):", "        if path.startswith('/'):"))
B('c14_pardir_on_raw', ['C14'], 'R14.a', (ST, '        if rel_path.startswith(os.pardir):', '        if path.startswith(os.pardir):'))
B('c14_breaking_notfound', ['C14'], 'R14.b', (ST, '    if not isfile(path):\n        raise NotFound(is_breaking=False)', '    if not isfile(path):\n        raise NotFound()'))
B('c14_open_outside_try', ['C14'], 'R14.c',
  (ST, "    try:\n        file_obj = open(path, 'rb')\n        mtime = get_file_mtime(path)", "    file_obj = open(path, 'rb')\n    try:\n        mtime = get_file_mtime(path)"))
B('c14_peek_unprotected', ['C14'], 'R14.c',
  (ST, '        try:\n            peeked = peek_file(file_obj, 1024)\n        except (IOError, OSError):\n            file_obj.close()\n            raise Forbidden(is_breaking=False)\n',
       '        peeked = peek_file(file_obj, 1024)\n'))
B('c14_handler_narrowed', ['C14'], 'R14.b',
  (ST, '        except (ValueError, IOError, OSError):\n            raise Forbidden(is_breaking=False)\n        bfr = build_file_response',
       '        except IOError:\n            raise Forbidden(is_breaking=False)\n        bfr = build_file_response'))
B('c14_304_unconditional_mtime', ['C14'], 'R14.d', (ST, '        if mtime <= cached_modify_time:', '        if mtime >= cached_modify_time:'))
B('c14_limit_root_off', ['C14'], 'R14.a', (ST, 'def find_file(search_paths, path, limit_root=True):', 'def find_file(search_paths, path, limit_root=False):'))
B('c14_no_content_length', ['C14'], 'R14.d', (ST, '    resp.content_length = fsize\n', ''))
T('c14_twin_isabs', ['C14'], (ST, "        if rel_path.startswith('/'):", '        if os.path.isabs(rel_path):'))
T('c14_twin_except_oserror', ['C14'],
  (ST, '        try:\n            peeked = peek_file(file_obj, 1024)\n        except (IOError, OSError):', '        try:\n            peeked = peek_file(file_obj, 1024)\n        except OSError:'))

# ------------------------------------------------------------------ C15
B('c15_cache_unguarded', ['C15'], 'R15.a', (CC, "        if hasattr(resp, 'cache_control'):", '        if resp.cache_control is not None:'))
B('c15_gzip_guard_removed', ['C15'], 'R15.a',
  (GZ, "        if not hasattr(resp, 'content_encoding'):\n            # e.g., HTTPExceptions (404/405/...), which are BaseResponses\n            # without the common header descriptors\n            return resp\n", ''))
B('c15_stats_content_type', ['C15'], 'R15.a',
  (STATS, "resp_mime_type = (getattr(resp, 'content_type', None) or '').partition(';')[0]", "resp_mime_type = resp.content_type.partition(';')[0]"))
B('c15_profile_no_early_return', ['C15'], 'R15.b',
  (PF, '        if not request.args.get(self.get_param_name):\n            return next()\n', ''))
B('c15_dummy_swallows', ['C15'], 'R15.c',
  (C, "                print(name, '- uhoh:', repr(e))\n            raise\n", "                print(name, '- uhoh:', repr(e))\n            ret = None\n"))
B('c15_gzip_ignores_accept', ['C15'], 'R15.d',
  (GZ, "        if resp.content_encoding or not request.accept_encodings['gzip']:", '        if resp.content_encoding:'))
B('c15_gzip_no_content_length', ['C15'], 'R15.d', (GZ, '        resp.content_length = len(comp_content)\n', ''))
B('c15_gzip_new_response', ['C15'], 'R15.b',
  (GZ, "        resp.content_encoding = 'gzip'\n        # TODO: regenerate etag?\n        return resp", "        resp.content_encoding = 'gzip'\n        return type(resp)(comp_content)"))
B('c15_new_mimetype_access', ['C15'], 'R15.a',
  (C, "        if self.verbose:\n            print(name, '- hooray:', repr(ret))", "        if self.verbose:\n            print(name, '- hooray:', repr(ret), ret.mimetype)"))
T('c15_twin_isinstance_guard', ['C15'], (GZ, "        if not hasattr(resp, 'content_encoding'):", '        if not isinstance(resp, Response):'))
T('c15_twin_getattr', ['C15'],
  (STATS, "resp_mime_type = (getattr(resp, 'content_type', None) or '').partition(';')[0]", "resp_mime_type = getattr(resp, 'content_type', '').partition(';')[0]"))

# ------------------------------------------------------------------ C16
B('c16_unquote_no_try', ['C16'], 'R16.b',
  (CK, "        try:\n            value = base64.b64decode(value)\n            value = cls.serialization_method.loads(value.decode('utf8'))\n        except Exception as e:\n            raise UnquoteError()\n        return value",
       "        value = base64.b64decode(value)\n        value = cls.serialization_method.loads(value.decode('utf8'))\n        return value"))
B('c16_guard_removed', ['C16'], 'R16.a',
  (CK, "        try:\n            return super(cls, JSONCookie).unserialize(string, secret_key)\n        except Exception:\n            # malformed client data (e.g., a signature that is not\n            # valid base64): treat like any other invalid cookie\n            return cls((), secret_key, False)",
       "        return super(cls, JSONCookie).unserialize(string, secret_key)"))
B('c16_guard_typeerror_only', ['C16'], 'R16.a',
  (CK, "            return super(cls, JSONCookie).unserialize(string, secret_key)\n        except Exception:", "            return super(cls, JSONCookie).unserialize(string, secret_key)\n        except TypeError:"))
B('c16_wrong_key', ['C16'], 'R16.d', (CK, '                                               secret_key=self.secret_key)', '                                               secret_key=self.cookie_name)'))
B('c16_no_save', ['C16'], 'R16.d', (CK, '        cookie.save_cookie(response, **save_cookie_kwargs)\n', ''))
B('c16_expiry_always_stamped', ['C16'], 'R16.d', (CK, "            if '_expires' not in cookie:\n                cookie['_expires']", "            if True:\n                cookie['_expires']"))
B('c16_fallback_keeps_data', ['C16'], 'R16.a', (CK, '            return cls((), secret_key, False)', '            return cls(string, secret_key, False)'))
B('c16_override_hash', ['C16'], 'R16.c', (CK, '    serialization_method = json\n', '    serialization_method = json\n    hash_method = staticmethod(lambda *a: None)\n'))
T('c16_twin_except_valueerror', ['C16'],
  (CK, "            return super(cls, JSONCookie).unserialize(string, secret_key)\n        except Exception:", "            return super(cls, JSONCookie).unserialize(string, secret_key)\n        except (ValueError, TypeError):"))

# ------------------------------------------------------------------ C17
B('c17_unicode_again', ['C17'], 'R17.a', (RS, 'return Response(str(context), mimetype="text/plain")\n        return self._serialize_to_resp', 'return Response(unicode(context), mimetype="text/plain")\n        return self._serialize_to_resp'))
B('c17_dev_mode_false', ['C17'], 'R17.d', (RS, "self.dev_mode = kwargs.pop('dev_mode', True)", "self.dev_mode = kwargs.pop('dev_mode', False)"))
B('c17_index_compare', ['C17'], 'R17.b', (RS, "bytestr[:1] == b'{'", "bytestr[0] == b'{'"))
B('c17_str_compare', ['C17'], 'R17.b', (RS, "bytestr[:1] == b'['", "bytestr[:1] == '['"))
B('c17_swapped_brackets', ['C17'], 'R17.b', (RS, "bytestr[:1] == b'[' and bytestr[-1:] == b']'", "bytestr[:1] == b'[' and bytestr[-1:] == b'}'"))
B('c17_label_json_as_html', ['C17'], 'R17.c',
  (RS, '                return Response(context, mimetype="application/json")', '                return Response(context, mimetype="text/html")'))
B('c17_sniff_order', ['C17'], 'R17.c',
  (RS, "            if self._guess_json(context):\n                return Response(context, mimetype=\"application/json\")\n            elif b'<html' in context[:168]:",
       "            if b'<html' in context[:168]:\n                return Response(context, mimetype=\"application/json\")\n            elif self._guess_json(context):"))
B('c17_raise_in_dev', ['C17'], 'R17.d', (RS, '        if self.dev_mode:\n            return repr(obj)\n', '        if not self.dev_mode:\n            return repr(obj)\n'))
B('c17_render_json_dev_not_dev', ['C17'], 'R17.d', (RS, 'render_json_dev = JSONRender(dev_mode=True)', 'render_json_dev = JSONRender()'))
B('c17_swap_renderers', ['C17'], 'R17.c',
  (RS, "        if resp_mime == 'application/json':\n            return self.json_render(context)\n        elif resp_mime == 'text/html':\n            return self.tabular_render(context, _route)",
       "        if resp_mime == 'text/html':\n            return self.json_render(context)\n        elif resp_mime == 'application/json':\n            return self.tabular_render(context, _route)"))
B('c17_str_sniff', ['C17'], 'R17.b', (RS, "            elif b'<html' in context[:168]:", "            elif '<html' in context[:168]:"))
T('c17_twin_startswith', ['C17'],
  (RS, "bytestr[:1] == b'{' and bytestr[-1:] == b'}'", "bytestr.startswith(b'{') and bytestr.endswith(b'}')"))
T('c17_twin_repr', ['C17'], (RS, 'return Response(str(context), mimetype="text/plain")\n        return self._serialize_to_resp', 'return Response(repr(context), mimetype="text/plain")\n        return self._serialize_to_resp'))

# ------------------------------------------------------------------ C19
B('c19_total_count_guard', ['C19'], 'R19.c', (STATS, '        if len(self._data) < self._cap:', '        if self._total_count <= self._cap:'))
B('c19_le_cap', ['C19'], 'R19.c', (STATS, '        if len(self._data) < self._cap:', '        if len(self._data) <= self._cap:'))
B('c19_idx_le_cap', ['C19'], 'R19.c', (STATS, '        if idx < self._cap:\n            self._data[idx] = val', '        if idx <= self._cap:\n            self._data[idx] = val'))
B('c19_report_after_reset', ['C19'], 'R19.b',
  (STATS, '    ret = get_stats_dict(_application)\n    stats_mw = _get_stats_mw(_application)\n    stats_mw.reset()\n',
          '    stats_mw = _get_stats_mw(_application)\n    stats_mw.reset()\n    ret = get_stats_dict(_application)\n'))
B('c19_no_reraise', ['C19', 'C15'], {'C19': 'R19.a', 'C15': 'R15.c'},
  (STATS, "            resp_mime_type = getattr(e, 'content_type', '').partition(';')[0]\n            raise\n", "            resp_mime_type = getattr(e, 'content_type', '').partition(';')[0]\n            resp = e\n"))
B('c19_hit_only_on_success', ['C19'], 'R19.a',
  (STATS, '        finally:\n            end_time = time.time()', '        else:\n            end_time = time.time()'))
B('c19_resize_no_truncate', ['C19'], 'R19.c',
  (STATS, '        if new_size >= len(self._data):\n            return\n        self._data = self._data[:new_size]\n', ''))
B('c19_double_count', ['C19'], 'R19.c', (STATS, "        idx = fast_randint(0, self._total_count)\n", "        self._total_count += 1\n        idx = fast_randint(0, self._total_count)\n"))
B('c19_key_order', ['C19'], 'R19.a', (STATS, 'self.route_hits[_route][resp_status].add(hit)', 'self.route_hits[resp_status][_route].add(hit)'))
B('c19_count_is_sample_size', ['C19'], 'R19.b', (STATS, "desc_dict['count'] = hits.total_count", "desc_dict['count'] = len(durs)"))
B('c19_store_other_value', ['C19'], 'R19.c', (STATS, '            self._data[idx] = val', '            self._data[idx] = self._data[0]'))
T('c19_twin_cap_gt_len', ['C19'], (STATS, '        if len(self._data) < self._cap:', '        if self._cap > len(self._data):'))
T('c19_twin_not_ge', ['C19'], (STATS, '        if len(self._data) < self._cap:', '        if not len(self._data) >= self._cap:'))

# ------------------------------------------------------------------ C20
B('c20_raw_tb', ['C20'], 'R20.c', (FL, '<pre>{tb_str}</pre>', '<pre>{tb_str|s}</pre>'))
B('c20_unicode_again', ['C20'], 'R20.a', (FL, '        if not isinstance(tb_str, str):', '        if not isinstance(tb_str, unicode):'))
B('c20_parser_unprotected', ['C20'], 'R20.b',
  (FL, '    try:\n        parsed_tb = _ParsedTB.from_string(traceback_string)\n        parsed_error = parsed_tb.to_dict()\n    except:\n        parsed_error = {}\n',
       '    parsed_tb = _ParsedTB.from_string(traceback_string)\n    parsed_error = parsed_tb.to_dict()\n'))
B('c20_esc_pragma', ['C20'], 'R20.c', (FL, '    <h2>Stack trace</h2>\n    <pre>{tb_str}</pre>', '    <h2>Stack trace</h2>\n    {%esc:s}<pre>{tb_str}</pre>{/esc}'))
B('c20_catchall_other_template', ['C20'], 'R20.b', (FL, "              ('/<_ignored*>', get_flaw_info, 'flaw_tmpl')]", "              ('/<_ignored*>', get_flaw_info, 'flaw_tmpl2')]"))
B('c20_resource_renamed', ['C20'], 'R20.b', (FL, "    resources = {'tb_str': traceback_string,", "    resources = {'traceback': traceback_string,"))
B('c20_swapped_type_msg', ['C20'], 'R20.d', (FL, '        return cls(exc_type, exc_msg, frames)', '        return cls(exc_msg, exc_type, frames)'))
T('c20_twin_except_exception', ['C20'], (FL, '        parsed_error = parsed_tb.to_dict()\n    except:\n', '        parsed_error = parsed_tb.to_dict()\n    except Exception:\n'))
T('c20_twin_h_filter', ['C20'], (FL, '<pre>{tb_str}</pre>', '<pre>{tb_str|h}</pre>'))


# ------------------------------------------------------------------ per-package variant files (vt/variants_<pkg>.py)
# each defines more B(...) / T(...) entries with ``from .variants import *``-style access to the helpers above
def _load_package_variant_files():
    import importlib
    import os
    here = os.path.dirname(os.path.abspath(__file__))
    for fn in sorted(os.listdir(here)):
        if fn.startswith('variants_') and fn.endswith('.py'):
            importlib.import_module('%s.%s' % (__package__, fn[:-3]))


_load_package_variant_files()
