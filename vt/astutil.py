"""Small AST helpers shared by the rules."""
import ast

from .core import norm


def dotted(expr):
    """'a.b.c' for Name/Attribute chains, else None."""
    parts = []
    while isinstance(expr, ast.Attribute):
        parts.append(expr.attr)
        expr = expr.value
    if isinstance(expr, ast.Name):
        parts.append(expr.id)
        return '.'.join(reversed(parts))
    return None


def root_name(expr):
    """Root Name id of an attribute / subscript / call-receiver chain."""
    while True:
        if isinstance(expr, ast.Attribute):
            expr = expr.value
        elif isinstance(expr, ast.Subscript):
            expr = expr.value
        elif isinstance(expr, ast.Call):
            expr = expr.func
        elif isinstance(expr, ast.Starred):
            expr = expr.value
        else:
            break
    return expr.id if isinstance(expr, ast.Name) else None


def call_name(call):
    return dotted(call.func) if isinstance(call, ast.Call) else None


def call_tail(call):
    """Last component of the callee: 'insert' for self.routes.insert(...)."""
    if not isinstance(call, ast.Call):
        return None
    f = call.func
    if isinstance(f, ast.Attribute):
        return f.attr
    if isinstance(f, ast.Name):
        return f.id
    return None


def walk_no_nested(node, include_root=True):
    """ast.walk that does not descend into nested function/class/lambda bodies."""
    todo = [node] if include_root else list(ast.iter_child_nodes(node))
    first = True
    while todo:
        n = todo.pop()
        yield n
        if not first and isinstance(n, (ast.FunctionDef, ast.AsyncFunctionDef, ast.ClassDef, ast.Lambda)):
            continue
        first = False
        todo.extend(ast.iter_child_nodes(n))


def walk_body(fnode):
    """All nodes of a function body, not descending into nested defs."""
    for st in fnode.body:
        for n in walk_no_nested_stmt(st):
            yield n


def walk_no_nested_stmt(st):
    todo = [st]
    while todo:
        n = todo.pop()
        yield n
        if isinstance(n, (ast.FunctionDef, ast.AsyncFunctionDef, ast.ClassDef, ast.Lambda)) and n is not st:
            continue
        if isinstance(n, (ast.FunctionDef, ast.AsyncFunctionDef, ast.ClassDef, ast.Lambda)):
            # a def statement itself: its decorators/defaults are evaluated here, body is not
            continue
        todo.extend(ast.iter_child_nodes(n))


def calls_in(node, nested=False):
    it = ast.walk(node) if nested else walk_no_nested(node)
    return [n for n in it if isinstance(n, ast.Call)]


def find_calls(fnode, pred):
    """Calls in a function body (not nested defs) whose dotted name / tail satisfies pred."""
    out = []
    for n in walk_body(fnode):
        if isinstance(n, ast.Call) and pred(n):
            out.append(n)
    return out


def calls_named(fnode, *names):
    names = set(names)
    return find_calls(fnode, lambda c: call_name(c) in names or call_tail(c) in names)


def stmts_of(fnode, nested_blocks=True):
    """Every statement in the function (recursively through compound statements, not nested defs)."""
    out = []

    def rec(body):
        for st in body:
            out.append(st)
            if isinstance(st, (ast.FunctionDef, ast.AsyncFunctionDef, ast.ClassDef)):
                continue
            for fld in ('body', 'orelse', 'finalbody'):
                sub = getattr(st, fld, None)
                if isinstance(sub, list) and sub and isinstance(sub[0], ast.stmt):
                    rec(sub)
            for h in getattr(st, 'handlers', []) or []:
                rec(h.body)
            if isinstance(st, ast.Match):
                for c in st.cases:
                    rec(c.body)
    rec(fnode.body)
    return out


def stmt_of(mod, node):
    """The statement that contains an expression node."""
    cur = node
    while cur is not None and not isinstance(cur, ast.stmt):
        cur = mod.parents.get(cur)
    return cur


def names_loaded(node):
    return set(n.id for n in ast.walk(node) if isinstance(n, ast.Name) and isinstance(n.ctx, ast.Load))


def names_stored(node):
    return set(n.id for n in ast.walk(node) if isinstance(n, ast.Name) and isinstance(n.ctx, (ast.Store, ast.Del)))


def assigned_value(fnode, name):
    """List of value exprs assigned to local ``name`` in the function (simple Name targets and
    tuple-unpack positions are returned as (value, index))."""
    out = []
    for st in stmts_of(fnode):
        if isinstance(st, ast.Assign):
            for t in st.targets:
                if isinstance(t, ast.Name) and t.id == name:
                    out.append((st, st.value, None))
                elif isinstance(t, (ast.Tuple, ast.List)):
                    for i, e in enumerate(t.elts):
                        if isinstance(e, ast.Name) and e.id == name:
                            out.append((st, st.value, i))
        elif isinstance(st, ast.AnnAssign) and isinstance(st.target, ast.Name) and st.target.id == name and st.value:
            out.append((st, st.value, None))
        elif isinstance(st, ast.AugAssign) and isinstance(st.target, ast.Name) and st.target.id == name:
            out.append((st, st, None))
        elif isinstance(st, (ast.For,)):
            if name in names_stored(st.target):
                out.append((st, st.iter, 'iter'))
        elif isinstance(st, ast.With):
            for it in st.items:
                if it.optional_vars is not None and name in names_stored(it.optional_vars):
                    out.append((st, it.context_expr, 'with'))
        elif isinstance(st, ast.Try):
            for h in st.handlers:
                if h.name == name:
                    out.append((h, h.type, 'exc'))
    return out


def kwarg(call, name, default=None):
    for k in call.keywords:
        if k.arg == name:
            return k.value
    return default


def argn(call, name, pos, default=None):
    """Argument ``name`` of a call: keyword, or positional at index ``pos`` (the loader turns keywords of resolvable
    callees into positionals, so rules must accept both spellings)."""
    for k in call.keywords:
        if k.arg == name:
            return k.value
    if pos is not None and len(call.args) > pos and not any(isinstance(a, ast.Starred) for a in call.args[:pos + 1]):
        return call.args[pos]
    return default


def is_const(expr, value):
    return isinstance(expr, ast.Constant) and expr.value == value and type(expr.value) is type(value)


def str_consts(node):
    return [n.value for n in ast.walk(node) if isinstance(n, ast.Constant) and isinstance(n.value, str)]


def exc_names(handler_type):
    """Names caught by an except clause: [] for bare except (catches everything)."""
    if handler_type is None:
        return None
    if isinstance(handler_type, ast.Tuple):
        return [norm(e) for e in handler_type.elts]
    return [norm(handler_type)]


# builtin exception hierarchy (the part the rules need)
EXC_PARENTS = {
    'BaseException': None, 'Exception': 'BaseException',
    'ArithmeticError': 'Exception', 'ZeroDivisionError': 'ArithmeticError', 'OverflowError': 'ArithmeticError',
    'AssertionError': 'Exception', 'AttributeError': 'Exception', 'BufferError': 'Exception', 'EOFError': 'Exception',
    'ImportError': 'Exception', 'ModuleNotFoundError': 'ImportError',
    'LookupError': 'Exception', 'IndexError': 'LookupError', 'KeyError': 'LookupError',
    'MemoryError': 'Exception', 'NameError': 'Exception', 'UnboundLocalError': 'NameError',
    'OSError': 'Exception', 'IOError': 'Exception', 'EnvironmentError': 'Exception',
    'FileNotFoundError': 'OSError', 'PermissionError': 'OSError', 'IsADirectoryError': 'OSError',
    'NotADirectoryError': 'OSError', 'FileExistsError': 'OSError', 'TimeoutError': 'OSError',
    'ReferenceError': 'Exception', 'RuntimeError': 'Exception', 'NotImplementedError': 'RuntimeError',
    'RecursionError': 'RuntimeError', 'StopIteration': 'Exception', 'SyntaxError': 'Exception',
    'SystemError': 'Exception', 'TypeError': 'Exception',
    'ValueError': 'Exception', 'UnicodeError': 'ValueError', 'UnicodeDecodeError': 'UnicodeError',
    'UnicodeEncodeError': 'UnicodeError', 'binascii.Error': 'ValueError', 'json.JSONDecodeError': 'ValueError',
    'KeyboardInterrupt': 'BaseException', 'SystemExit': 'BaseException', 'GeneratorExit': 'BaseException',
}
# IOError / EnvironmentError are aliases of OSError on py3
EXC_ALIASES = {'IOError': 'OSError', 'EnvironmentError': 'OSError'}


def exc_supertypes(name):
    name = EXC_ALIASES.get(name, name)
    out = [name]
    while EXC_PARENTS.get(name):
        name = EXC_PARENTS[name]
        out.append(name)
    return out


def handler_catches(handler, exc):
    """Does ``except <handler.type>`` catch builtin exception type name ``exc``?"""
    names = exc_names(handler.type)
    if names is None:
        return True
    sup = set(exc_supertypes(exc))
    for n in names:
        n = EXC_ALIASES.get(n, n)
        if n in sup:
            return True
    return False
